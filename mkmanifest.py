#!/usr/bin/env python3
"""Regenerates MANIFEST.json from checks.py (single source of truth) and not_applicable.json."""
import json, os, sys
V = os.path.dirname(os.path.abspath(__file__))
sys.path.insert(0, V)
from checks import CHECKS
props = [json.loads(l) for l in open(os.path.join(V, "properties.jsonl")) if l.strip()]
na_reasons = json.load(open(os.path.join(V, "not_applicable.json"))) if os.path.exists(os.path.join(V, "not_applicable.json")) else {}
checks = []
for p in props:
    cid = p["id"]
    if cid not in CHECKS:
        continue
    c = CHECKS[cid]
    checks.append({
        "property_id": cid,
        "quick_cmd": f"./vcheck run {cid} --tier quick",
        "thorough_cmd": f"./vcheck run {cid} --tier thorough",
        "evidence_file": f"evidence/{cid}.json",
        "replay_cmd_template": f"./vcheck replay {cid} {{path}}",
        "engine": "vcheck",
        "level_claimed": {"category": c.get("level", "exploration"), "text": c["level_text"], "design_ref": f"DESIGN.md §2 {cid}"},
        "level_note": c["note"],
        "technique": c["technique"],
    })
na = [{"property_id": p["id"], "reason": na_reasons.get(p["id"], "check not built yet in this round (no claim made)")}
      for p in props if p["id"] not in CHECKS]
m = {
    "version": 1,
    "setup_cmd": "./setup.sh",
    "hooks": {
        "guard": "verif",
        "enable": "no source hooks: harness tests, support packages and the VRF stand-in are injected at build time with `go test -overlay` (+ -modfile for harness-only modules); the `verif` build tag is reserved and unused",
        "baseline_off_cmd": "./baseline.sh",
        "source_commits": [],
        "add_only": True,
    },
    "engines": [{"name": "vcheck", "path": "vcheck", "serves_properties": [c["property_id"] for c in checks],
                 "kind_free_text": "runner: builds overlay test binaries from /repo's working tree, runs sharded child processes, aggregates JSONL event logs, classifies against known_findings.json, writes evidence"}],
    "checks": checks,
    "not_applicable": na,
    "notes": "Runtime monitoring family. Exit 0 held / 1 VIOLATION / 2 inconclusive. See DESIGN.md.",
}
json.dump(m, open(os.path.join(V, "MANIFEST.json"), "w"), indent=1)
print("checks:", len(checks), "not_applicable:", len(na))
