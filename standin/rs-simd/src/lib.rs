//! Stand-in for `reed-solomon-simd` (see Cargo.toml). Systematic MDS code over GF(2^16):
//! the `original_count` original shards are the values of a polynomial of degree < original_count at the points
//! 0..original_count, the recovery shards its values at original_count..original_count+recovery_count, symbol by symbol
//! (one symbol = one little-endian u16 of the shard). Any `original_count` distinct shards determine the polynomial.

use std::collections::HashMap;
use std::sync::{Mutex, OnceLock};

#[derive(Debug, Clone, PartialEq, Eq)]
pub enum Error {
    UnsupportedShardCount { original_count: usize, recovery_count: usize },
    InvalidShardSize { shard_bytes: usize },
    DifferentShardSize { shard_bytes: usize, got: usize },
    TooManyOriginalShards { original_count: usize },
    TooFewOriginalShards { original_count: usize, original_received_count: usize },
    InvalidOriginalShardIndex { original_count: usize, index: usize },
    InvalidRecoveryShardIndex { recovery_count: usize, index: usize },
    DuplicateOriginalShardIndex { index: usize },
    DuplicateRecoveryShardIndex { index: usize },
    NotEnoughShards { original_count: usize, original_received_count: usize, recovery_received_count: usize },
}

impl std::fmt::Display for Error {
    fn fmt(&self, f: &mut std::fmt::Formatter<'_>) -> std::fmt::Result { write!(f, "{:?}", self) }
}
impl std::error::Error for Error {}

// ---- GF(2^16), primitive polynomial x^16 + x^12 + x^3 + x + 1 -------------------------------------------------------------
const POLY: u32 = 0x1100B;
const ORDER: usize = 65535;

struct Tables { exp: Vec<u16>, log: Vec<u16> }

fn tables() -> &'static Tables {
    static T: OnceLock<Tables> = OnceLock::new();
    T.get_or_init(|| {
        let mut exp = vec![0u16; 2 * ORDER + 2];
        let mut log = vec![0u16; 65536];
        let mut x: u32 = 1;
        for i in 0..ORDER {
            exp[i] = x as u16;
            log[x as usize] = i as u16;
            x <<= 1;
            if x & 0x10000 != 0 { x ^= POLY; }
        }
        for i in ORDER..2 * ORDER + 2 { exp[i] = exp[i - ORDER]; }
        Tables { exp, log }
    })
}

#[inline]
fn mul(a: u16, b: u16) -> u16 {
    if a == 0 || b == 0 { return 0; }
    let t = tables();
    t.exp[t.log[a as usize] as usize + t.log[b as usize] as usize]
}

#[inline]
fn inv(a: u16) -> u16 {
    let t = tables();
    t.exp[ORDER - t.log[a as usize] as usize]
}

/// Lagrange coefficients: for every target point y in `targets`, the vector c with f(y) = Σ_j c[j]·f(points[j]).
fn lagrange(points: &[u16], targets: &[u16]) -> Vec<Vec<u16>> {
    let k = points.len();
    // denominators d_j = Π_{i≠j} (x_j − x_i)
    let mut dinv = vec![0u16; k];
    for j in 0..k {
        let mut d: u16 = 1;
        for i in 0..k {
            if i != j { d = mul(d, points[j] ^ points[i]); }
        }
        dinv[j] = inv(d);
    }
    let mut out = Vec::with_capacity(targets.len());
    for &y in targets {
        // numerator n_j = Π_{i≠j} (y − x_i); y is never one of the points here
        let mut total: u16 = 1;
        for i in 0..k { total = mul(total, y ^ points[i]); }
        let mut row = vec![0u16; k];
        for j in 0..k {
            let nj = mul(total, inv(y ^ points[j]));
            row[j] = mul(nj, dinv[j]);
        }
        out.push(row);
    }
    out
}

type Matrix = std::sync::Arc<Vec<Vec<u16>>>;

fn cache() -> &'static Mutex<HashMap<Vec<u32>, Matrix>> {
    static C: OnceLock<Mutex<HashMap<Vec<u32>, Matrix>>> = OnceLock::new();
    C.get_or_init(|| Mutex::new(HashMap::new()))
}

fn cached_lagrange(points: &[u16], targets: &[u16]) -> Matrix {
    let mut key: Vec<u32> = Vec::with_capacity(points.len() + targets.len() + 1);
    key.push(points.len() as u32);
    key.extend(points.iter().map(|&p| p as u32));
    key.extend(targets.iter().map(|&p| p as u32 | 0x10000));
    if let Some(m) = cache().lock().unwrap().get(&key) { return m.clone(); }
    let m: Matrix = std::sync::Arc::new(lagrange(points, targets));
    let mut c = cache().lock().unwrap();
    if c.len() > 64 { c.clear(); }
    c.insert(key, m.clone());
    m
}

fn check_counts(original_count: usize, recovery_count: usize, shard_bytes: usize) -> Result<(), Error> {
    if original_count == 0 || recovery_count == 0 || original_count + recovery_count > 65535 {
        return Err(Error::UnsupportedShardCount { original_count, recovery_count });
    }
    if shard_bytes == 0 || shard_bytes % 2 != 0 {
        return Err(Error::InvalidShardSize { shard_bytes });
    }
    Ok(())
}

fn symbols(shard: &[u8]) -> Vec<u16> {
    shard.chunks(2).map(|c| u16::from_le_bytes([c[0], c[1]])).collect()
}

fn bytes(sym: &[u16]) -> Vec<u8> {
    let mut v = Vec::with_capacity(sym.len() * 2);
    for s in sym { v.extend_from_slice(&s.to_le_bytes()); }
    v
}

// ---- encoder ----------------------------------------------------------------------------------------------------------------
pub struct ReedSolomonEncoder {
    original_count: usize,
    recovery_count: usize,
    shard_bytes: usize,
    originals: Vec<Vec<u16>>,
    recovery: Vec<Vec<u8>>,
}

pub struct EncoderResult<'a> { enc: &'a ReedSolomonEncoder }

impl<'a> EncoderResult<'a> {
    pub fn recovery(&self, index: usize) -> Option<&[u8]> { self.enc.recovery.get(index).map(|v| v.as_slice()) }
    pub fn recovery_iter(&self) -> impl Iterator<Item = &[u8]> + '_ { self.enc.recovery.iter().map(|v| v.as_slice()) }
}

impl ReedSolomonEncoder {
    pub fn new(original_count: usize, recovery_count: usize, shard_bytes: usize) -> Result<Self, Error> {
        check_counts(original_count, recovery_count, shard_bytes)?;
        Ok(Self { original_count, recovery_count, shard_bytes, originals: Vec::with_capacity(original_count), recovery: Vec::new() })
    }

    pub fn add_original_shard<T: AsRef<[u8]>>(&mut self, original_shard: T) -> Result<(), Error> {
        let s = original_shard.as_ref();
        if s.len() != self.shard_bytes {
            return Err(Error::DifferentShardSize { shard_bytes: self.shard_bytes, got: s.len() });
        }
        if self.originals.len() == self.original_count {
            return Err(Error::TooManyOriginalShards { original_count: self.original_count });
        }
        self.originals.push(symbols(s));
        Ok(())
    }

    pub fn encode(&mut self) -> Result<EncoderResult<'_>, Error> {
        if self.originals.len() != self.original_count {
            return Err(Error::TooFewOriginalShards { original_count: self.original_count, original_received_count: self.originals.len() });
        }
        let points: Vec<u16> = (0..self.original_count as u32).map(|x| x as u16).collect();
        let targets: Vec<u16> = (self.original_count as u32..(self.original_count + self.recovery_count) as u32).map(|x| x as u16).collect();
        let m = cached_lagrange(&points, &targets);
        let nsym = self.shard_bytes / 2;
        self.recovery.clear();
        for row in m.iter() {
            let mut out = vec![0u16; nsym];
            for (j, &c) in row.iter().enumerate() {
                if c == 0 { continue; }
                for s in 0..nsym { out[s] ^= mul(c, self.originals[j][s]); }
            }
            self.recovery.push(bytes(&out));
        }
        self.originals.clear();
        Ok(EncoderResult { enc: self })
    }
}

// ---- decoder ----------------------------------------------------------------------------------------------------------------
pub struct ReedSolomonDecoder {
    original_count: usize,
    recovery_count: usize,
    shard_bytes: usize,
    originals: HashMap<usize, Vec<u16>>,
    recoveries: HashMap<usize, Vec<u16>>,
    restored: Vec<(usize, Vec<u8>)>,
}

pub struct DecoderResult<'a> { dec: &'a ReedSolomonDecoder }

impl<'a> DecoderResult<'a> {
    pub fn restored_original(&self, index: usize) -> Option<&[u8]> {
        self.dec.restored.iter().find(|(i, _)| *i == index).map(|(_, v)| v.as_slice())
    }
    pub fn restored_original_iter(&self) -> impl Iterator<Item = (usize, &[u8])> + '_ {
        self.dec.restored.iter().map(|(i, v)| (*i, v.as_slice()))
    }
}

impl ReedSolomonDecoder {
    pub fn new(original_count: usize, recovery_count: usize, shard_bytes: usize) -> Result<Self, Error> {
        check_counts(original_count, recovery_count, shard_bytes)?;
        Ok(Self { original_count, recovery_count, shard_bytes, originals: HashMap::new(), recoveries: HashMap::new(), restored: Vec::new() })
    }

    pub fn add_original_shard<T: AsRef<[u8]>>(&mut self, index: usize, original_shard: T) -> Result<(), Error> {
        let s = original_shard.as_ref();
        if index >= self.original_count {
            return Err(Error::InvalidOriginalShardIndex { original_count: self.original_count, index });
        }
        if s.len() != self.shard_bytes {
            return Err(Error::DifferentShardSize { shard_bytes: self.shard_bytes, got: s.len() });
        }
        if self.originals.contains_key(&index) {
            return Err(Error::DuplicateOriginalShardIndex { index });
        }
        self.originals.insert(index, symbols(s));
        Ok(())
    }

    pub fn add_recovery_shard<T: AsRef<[u8]>>(&mut self, index: usize, recovery_shard: T) -> Result<(), Error> {
        let s = recovery_shard.as_ref();
        if index >= self.recovery_count {
            return Err(Error::InvalidRecoveryShardIndex { recovery_count: self.recovery_count, index });
        }
        if s.len() != self.shard_bytes {
            return Err(Error::DifferentShardSize { shard_bytes: self.shard_bytes, got: s.len() });
        }
        if self.recoveries.contains_key(&index) {
            return Err(Error::DuplicateRecoveryShardIndex { index });
        }
        self.recoveries.insert(index, symbols(s));
        Ok(())
    }

    pub fn decode(&mut self) -> Result<DecoderResult<'_>, Error> {
        self.restored.clear();
        if self.originals.len() == self.original_count {
            return Ok(DecoderResult { dec: self }); // nothing to restore
        }
        if self.originals.len() + self.recoveries.len() < self.original_count {
            return Err(Error::NotEnoughShards { original_count: self.original_count, original_received_count: self.originals.len(),
                recovery_received_count: self.recoveries.len() });
        }
        // use all received originals and the lowest-indexed recoveries needed to reach original_count points
        let mut oidx: Vec<usize> = self.originals.keys().cloned().collect();
        oidx.sort_unstable();
        let mut ridx: Vec<usize> = self.recoveries.keys().cloned().collect();
        ridx.sort_unstable();
        ridx.truncate(self.original_count - oidx.len());
        let mut points: Vec<u16> = Vec::with_capacity(self.original_count);
        let mut values: Vec<&Vec<u16>> = Vec::with_capacity(self.original_count);
        for i in &oidx { points.push(*i as u16); values.push(&self.originals[i]); }
        for i in &ridx { points.push((self.original_count + *i) as u16); values.push(&self.recoveries[i]); }
        let missing: Vec<usize> = (0..self.original_count).filter(|i| !self.originals.contains_key(i)).collect();
        let targets: Vec<u16> = missing.iter().map(|&i| i as u16).collect();
        let m = cached_lagrange(&points, &targets);
        let nsym = self.shard_bytes / 2;
        let mut restored = Vec::with_capacity(missing.len());
        for (t, row) in m.iter().enumerate() {
            let mut out = vec![0u16; nsym];
            for (j, &c) in row.iter().enumerate() {
                if c == 0 { continue; }
                for s in 0..nsym { out[s] ^= mul(c, values[j][s]); }
            }
            restored.push((missing[t], bytes(&out)));
        }
        self.restored = restored;
        Ok(DecoderResult { dec: self })
    }
}

#[cfg(test)]
mod tests {
    use super::*;
    #[test]
    fn roundtrip_small() {
        let k = 4; let m = 6;
        let data: Vec<[u8; 2]> = (0..k).map(|i| [i as u8 * 17 + 1, 0xA0 + i as u8]).collect();
        let mut e = ReedSolomonEncoder::new(k, m, 2).unwrap();
        for d in &data { e.add_original_shard(d).unwrap(); }
        let rec: Vec<Vec<u8>> = e.encode().unwrap().recovery_iter().map(|s| s.to_vec()).collect();
        assert_eq!(rec.len(), m);
        // recover from recovery shards 2..6 only
        let mut d = ReedSolomonDecoder::new(k, m, 2).unwrap();
        for i in 2..6 { d.add_recovery_shard(i, &rec[i]).unwrap(); }
        let r = d.decode().unwrap();
        let got: HashMap<usize, Vec<u8>> = r.restored_original_iter().map(|(i, s)| (i, s.to_vec())).collect();
        for i in 0..k { assert_eq!(got[&i], data[i].to_vec()); }
    }
}
