// Package vrf is a deterministic pure-Go STAND-IN for the (absent) Bandersnatch
// VRF submodule pkg/Rust-VRF/vrf-func-ffi/src. It is injected by /verif with a
// `go test -overlay`; it is never part of the repository. No property about
// VRF security is decided with it (see /verif/DESIGN.md §1.3).
//
//	pk            = H("pk" ‖ sk)
//	out(pk, ctx)  = H("vrf-out" ‖ pk ‖ ctx)          (same for IETF and ring flavour)
//	IETF sig (96) = out ‖ mac ‖ pk,  mac = H("ietf-mac" ‖ pk ‖ ctx ‖ msg)
//	ring sig(784) = out ‖ pk ‖ mac ‖ 0…, mac = H("ring-mac" ‖ pk ‖ ctx ‖ msg); valid iff pk ∈ ring
//	commitment    = H("ring" ‖ ring) ‖ 0… (144 bytes)
package vrf

import (
	"bytes"
	"crypto/sha256"
	"errors"
)

const (
	IETFSigLen = 96
	RingSigLen = 784
	CommitLen  = 144
)

func h(tag string, parts ...[]byte) []byte {
	s := sha256.New()
	s.Write([]byte(tag))
	for _, p := range parts {
		var l [4]byte
		l[0], l[1], l[2], l[3] = byte(len(p)), byte(len(p)>>8), byte(len(p)>>16), byte(len(p)>>24)
		s.Write(l[:])
		s.Write(p)
	}
	return s.Sum(nil)
}

// GetPublicKeyFromSecret derives the stand-in public key.
func GetPublicKeyFromSecret(sk []byte) ([]byte, error) {
	if len(sk) == 0 {
		return nil, errors.New("vrf stand-in: empty secret")
	}
	return h("pk", sk), nil
}

// Output is the stand-in VRF output of key pk on context ctx.
func Output(pk, ctx []byte) []byte { return h("vrf-out", pk, ctx) }

// IETFSign signs (ctx,msg) with sk.
func IETFSign(sk, ctx, msg []byte) ([]byte, error) {
	pk, err := GetPublicKeyFromSecret(sk)
	if err != nil {
		return nil, err
	}
	sig := make([]byte, 0, IETFSigLen)
	sig = append(sig, Output(pk, ctx)...)
	sig = append(sig, h("ietf-mac", pk, ctx, msg)...)
	sig = append(sig, pk...)
	return sig, nil
}

// IETFVerify verifies sig over (ctx,msg) for key pk and returns the VRF output.
func IETFVerify(ctx, msg, sig, pk []byte) ([]byte, error) {
	if len(sig) != IETFSigLen || len(pk) != 32 {
		return nil, errors.New("vrf stand-in: bad length")
	}
	if !bytes.Equal(sig[0:32], Output(pk, ctx)) || !bytes.Equal(sig[32:64], h("ietf-mac", pk, ctx, msg)) || !bytes.Equal(sig[64:96], pk) {
		return nil, errors.New("vrf stand-in: invalid IETF signature")
	}
	return append([]byte(nil), sig[0:32]...), nil
}

// VRFIetfOutput extracts the output from an IETF signature (no verification).
func VRFIetfOutput(sig []byte) ([]byte, error) {
	if len(sig) < 32 {
		return nil, errors.New("vrf stand-in: short signature")
	}
	return append([]byte(nil), sig[0:32]...), nil
}

// RingSign is used by the verification harness only (block producer).
func RingSign(sk, ctx, msg []byte) []byte {
	pk, _ := GetPublicKeyFromSecret(sk)
	sig := make([]byte, RingSigLen)
	copy(sig[0:32], Output(pk, ctx))
	copy(sig[32:64], pk)
	copy(sig[64:96], h("ring-mac", pk, ctx, msg))
	return sig
}

type VerifyItem struct {
	Context   []byte
	Message   []byte
	Signature []byte
}

type VerifyResult struct {
	Output []byte
	Error  error
}

type Verifier struct {
	ring [][]byte
	raw  []byte
}

func NewVerifier(ring []byte, ringSize uint) (*Verifier, error) {
	if uint(len(ring)) != ringSize*32 {
		return nil, errors.New("vrf stand-in: ring size mismatch")
	}
	v := &Verifier{raw: append([]byte(nil), ring...)}
	for i := uint(0); i < ringSize; i++ {
		v.ring = append(v.ring, v.raw[i*32:(i+1)*32])
	}
	return v, nil
}

func (v *Verifier) Free() {}

func (v *Verifier) GetCommitment() ([]byte, error) {
	out := make([]byte, CommitLen)
	copy(out, h("ring", v.raw))
	return out, nil
}

func (v *Verifier) RingVerify(ctx, msg, sig []byte) ([]byte, error) {
	if len(sig) != RingSigLen {
		return nil, errors.New("vrf stand-in: bad ring signature length")
	}
	pk := sig[32:64]
	found := false
	for _, m := range v.ring {
		if bytes.Equal(m, pk) {
			found = true
			break
		}
	}
	if !found {
		return nil, errors.New("vrf stand-in: signer not in ring")
	}
	if !bytes.Equal(sig[0:32], Output(pk, ctx)) || !bytes.Equal(sig[64:96], h("ring-mac", pk, ctx, msg)) {
		return nil, errors.New("vrf stand-in: invalid ring signature")
	}
	for _, b := range sig[96:] {
		if b != 0 {
			return nil, errors.New("vrf stand-in: invalid ring signature padding")
		}
	}
	return append([]byte(nil), sig[0:32]...), nil
}

func (v *Verifier) RingVerifyBatch(items []VerifyItem) ([]VerifyResult, error) {
	res := make([]VerifyResult, len(items))
	for i, it := range items {
		o, err := v.RingVerify(it.Context, it.Message, it.Signature)
		res[i] = VerifyResult{Output: o, Error: err}
	}
	return res, nil
}

type Handler struct {
	sk []byte
	v  *Verifier
}

func NewHandler(ring, sk []byte, ringSize, proverIdx uint) (*Handler, error) {
	v, err := NewVerifier(ring, ringSize)
	if err != nil {
		return nil, err
	}
	return &Handler{sk: append([]byte(nil), sk...), v: v}, nil
}

func (h *Handler) Free() {}

func (h *Handler) IETFSign(ctx, msg []byte) ([]byte, error) { return IETFSign(h.sk, ctx, msg) }

func (h *Handler) VRFIetfOutput(sig []byte) ([]byte, error) { return VRFIetfOutput(sig) }

func (h *Handler) RingSign(ctx, msg []byte) ([]byte, error) { return RingSign(h.sk, ctx, msg), nil }

func (h *Handler) RingVerify(ctx, msg, sig []byte) ([]byte, error) {
	return h.v.RingVerify(ctx, msg, sig)
}
