// C driver for valgrind memcheck runs of the repository's reed-solomon-ffi static library (real lib.rs over the stand-in
// crate). usage: driver <seed> <rounds> <k> <n> ; exit 0 = all round trips identical, 3 = mismatch, 4 = library error.
#include <stdint.h>
#include <stdio.h>
#include <stdlib.h>
#include <string.h>
#include "reedsolomon.h"

static uint64_t s;
static uint32_t rnd(void) { s = s * 6364136223846793005ULL + 1442695040888963407ULL; return (uint32_t)(s >> 33); }

int main(int argc, char **argv) {
    if (argc < 5) return 2;
    s = strtoull(argv[1], 0, 10);
    int rounds = atoi(argv[2]);
    size_t k = strtoul(argv[3], 0, 10), n = strtoul(argv[4], 0, 10);
    size_t trips = 0;
    for (int r = 0; r < rounds; r++) {
        size_t sizes[] = {1, 2 * k - 1, 2 * k, 2 * k + 1, 4 * k - 1, 4 * k + 1, 4104, 1 + rnd() % 3000};
        size_t len = sizes[rnd() % 8];
        uint8_t *data = malloc(len);
        for (size_t i = 0; i < len; i++) data[i] = (uint8_t)rnd();
        uint8_t *enc = 0; uintptr_t enc_len = 0;
        if (rs_encode(data, len, k, n - k, &enc, &enc_len) != 0) { printf("encode failed\n"); return 4; }
        size_t shard = enc_len / n;
        // choose k distinct indices (partial Fisher-Yates), in shuffled order
        uintptr_t *idx = malloc(n * sizeof(uintptr_t));
        for (size_t i = 0; i < n; i++) idx[i] = i;
        int mode = rnd() % 3;
        for (size_t i = 0; i < k; i++) {
            size_t j = i + rnd() % (n - i);
            if (mode == 1) j = n - 1 - i < i ? i : n - 1 - i;   // prefer the last (parity) shards
            uintptr_t t = idx[i]; idx[i] = idx[j]; idx[j] = t;
        }
        uint8_t *flat = malloc(k * shard);
        for (size_t i = 0; i < k; i++) memcpy(flat + i * shard, enc + idx[i] * shard, shard);
        uint8_t *out = 0; uintptr_t out_len = 0;
        if (rs_decode(flat, idx, k, shard, k, n - k, &out, &out_len) != 0) { printf("decode failed\n"); return 4; }
        size_t padded = k * shard;
        if (out_len != padded || memcmp(out, data, len) != 0) { printf("mismatch len=%zu\n", len); return 3; }
        for (size_t i = len; i < padded; i++) if (out[i] != 0) { printf("padding not zero\n"); return 3; }
        free(out); free(flat); free(idx); free(enc); free(data);
        trips++;
    }
    printf("round_trips=%zu k=%zu n=%zu\n", trips, k, n);
    return 0;
}
