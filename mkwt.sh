#!/bin/bash
# usage: mkwt.sh <name>   -- scratch git worktree of /repo HEAD under /tmp/wt/<name> with the VRF stand-in placed in the (empty) submodule dir
n=$1; d=/tmp/wt/$n
git -C /repo worktree remove --force $d 2>/dev/null; rm -rf $d
git -C /repo worktree add --detach $d HEAD >/dev/null 2>&1 || exit 1
mkdir -p $d/pkg/Rust-VRF/vrf-func-ffi/src && cp /verif/standin/vrf/*.go $d/pkg/Rust-VRF/vrf-func-ffi/src/
echo $d
