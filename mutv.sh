#!/bin/bash
# usage: mutv.sh <check-id> <file-in-repo> <python-old> <python-new> [seed]
# Applies a textual mutation to a scratch copy of /repo (never /repo itself), runs the quick check against it, removes the copy.
cid=$1; f=$2; old=$3; new=$4; seed=${5:-1}
S=/tmp/scr-mut-$$; rm -rf $S; mkdir -p $S; cp -r /repo $S/repo
python3 - "$S/repo/$f" "$old" "$new" <<'PY' || { echo "mutation did not apply"; rm -rf $S; exit 9; }
import sys
p,old,new=sys.argv[1:4]
s=open(p).read()
if old not in s: sys.exit(1)
open(p,'w').write(s.replace(old,new,1))
PY
cd /verif && VERIF_REPO=$S/repo ./vcheck run $cid --tier quick --seed $seed 2>&1 | cut -c1-400 | grep -v "^\[build\]" | tail -4
rm -rf $S
