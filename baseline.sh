#!/bin/bash
# Runs the repository's own test suite (hooks/guard OFF, no overlay) and compares with BASELINE.json stable_pass.
cd /repo && GOFLAGS=-mod=mod GOPROXY=off go test -mod=mod -json -vet=off -count=1 -timeout 25m ./... 2>/dev/null | python3 -c "
import sys,json
base=set(json.load(open('/root/.vp/BASELINE.json'))['stable_pass'])
ok=set()
for ln in sys.stdin:
    try: e=json.loads(ln)
    except: continue
    if e.get('Test') and e.get('Action')=='pass': ok.add(e['Package']+'::'+e['Test'])
missing=sorted(base-ok)
print('baseline stable_pass:',len(base),'passing now:',len(base&ok),'missing:',missing)
sys.exit(1 if missing else 0)
"
