#!/bin/bash
# Runs every registered check once (tier/seed from the arguments) and prints a one-line summary per check.
# usage: ./sweep.sh [quick|thorough] [seed] [ids...]
cd "$(dirname "$0")"
tier=${1:-quick}; seed=${2:-1}; shift 2 2>/dev/null
ids=${*:-$(python3 ./vcheck list)}
mkdir -p .work/sweep
bad=0
for id in $ids; do
  rm -f evidence/$id.json
  t0=$(date +%s)
  ./vcheck run $id --tier $tier --seed $seed > .work/sweep/$id-$tier-$seed.log 2>&1
  rc=$?
  nv=$(grep -c '^VIOLATION' .work/sweep/$id-$tier-$seed.log)
  nk=$(grep -c '^KNOWN-FINDING' .work/sweep/$id-$tier-$seed.log)
  ev=$([ -s evidence/$id.json ] && echo yes || echo NO)
  echo "$id tier=$tier seed=$seed rc=$rc violations=$nv known=$nk evidence=$ev wall=$(( $(date +%s) - t0 ))s"
  [ $rc -ne 0 ] && bad=1
done
exit $bad
