"""Registry of checks: id -> parts (repo package hosting the harness test), tiers, floors, evidence text."""

STANDIN_VRF = "pkg/Rust-VRF is an empty submodule: a deterministic pure-Go stand-in with the same API is injected by overlay (DESIGN §1.3)"

CHECKS = {}


def check(cid, pkg, rule, technique, level_text, note, shards=(4, 16), race=False, floors=None, assumptions=None,
          extra_parts=None, exhaustive=None, timeout=None, **kw):
    part = {"name": "main", "pkg": pkg, "race": race, "shards": {"quick": shards[0], "thorough": shards[1]}}
    if timeout:
        part["timeout"] = {"quick": timeout[0], "thorough": timeout[1]}
    part.update(kw)
    CHECKS[cid] = {
        "parts": [part] + (extra_parts or []),
        "rule": rule, "technique": technique, "level": "exploration", "level_text": level_text, "note": note,
        "floors": floors or {}, "assumptions": assumptions or [], "exhaustive": exhaustive,
    }


check("C12", "internal/zzverif/c12",
      rule="case = one byte string or one value fed to all 6 codec entry points (types.DecodeUint, types reader, utilities, PVM.ReadUintVariable, telemetry, fuzz compact) and compared with a 15-line model of GP C.6; "
           "strata: every string of length 1..3 (exhaustive, one 'case' per first byte), 2^k-1/2^k/2^k+1 for k<64, random/boundary values with every proper prefix, random strings of every length class biased to non-minimal payloads, 9-byte 0xFF strings; "
           "distinct_nontrivial = distinct values / strings beyond the exhaustive stratum + first bytes enumerated",
      technique="reference-model monitor (differential against an executable model of GP C.6) over exhaustive + boundary + random inputs",
      level_text="Every one of the five implementations is run on the same inputs and compared with an independent model: exhaustive for all strings up to 3 bytes, sampled beyond. Held = no divergence on what was explored.",
      note="Trusts the 15-line model of C.6 in harness/internal/zzverif/c12; fuzz's unexported compactEncode/Decode are reached through an overlay-only export shim.",
      shards=(8, 16), floors={"any": {"exh3_strings": 16843008, "values": 1000}},
      exhaustive="all byte strings of length 1..3 x 6 decoders", assumptions=[STANDIN_VRF])
