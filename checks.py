"""Registry of checks: id -> parts (repo package hosting the harness test), tiers, floors, evidence text."""

STANDIN_VRF = "pkg/Rust-VRF is an empty submodule: a deterministic pure-Go stand-in with the same API is injected by overlay (DESIGN §1.3)"

CHECKS = {}


def check(cid, pkg, rule, technique, level_text, note, shards=(4, 16), race=False, floors=None, assumptions=None,
          extra_parts=None, exhaustive=None, timeout=None, **kw):
    part = {"name": "main", "pkg": pkg, "race": race, "shards": {"quick": shards[0], "thorough": shards[1]}}
    if timeout:
        part["timeout"] = {"quick": timeout[0], "thorough": timeout[1]}
    part.update(kw)
    CHECKS[cid] = {
        "parts": [part] + (extra_parts or []),
        "rule": rule, "technique": technique, "level": "exploration", "level_text": level_text, "note": note,
        "floors": floors or {}, "assumptions": assumptions or [], "exhaustive": exhaustive,
    }


check("C12", "internal/zzverif/c12",
      rule="case = one byte string or one value fed to all 6 codec entry points (types.DecodeUint, types reader, utilities, PVM.ReadUintVariable, telemetry, fuzz compact) and compared with a 15-line model of GP C.6; "
           "strata: every string of length 1..3 (exhaustive, one 'case' per first byte), 2^k-1/2^k/2^k+1 for k<64, random/boundary values with every proper prefix, random strings of every length class biased to non-minimal payloads, 9-byte 0xFF strings; "
           "distinct_nontrivial = distinct values / strings beyond the exhaustive stratum + first bytes enumerated",
      technique="reference-model monitor (differential against an executable model of GP C.6) over exhaustive + boundary + random inputs",
      level_text="Every one of the five implementations is run on the same inputs and compared with an independent model: exhaustive for all strings up to 3 bytes, sampled beyond. Held = no divergence on what was explored.",
      note="Trusts the 15-line model of C.6 in harness/internal/zzverif/c12; fuzz's unexported compactEncode/Decode are reached through an overlay-only export shim.",
      shards=(8, 16), floors={"any": {"exh3_strings": 16843008, "values": 1000}},
      exhaustive="all byte strings of length 1..3 x 6 decoders", assumptions=[STANDIN_VRF])

check("C18", "internal/utilities/merkle_tree",
      rule="case = one blob sequence (every length 0..70 x element modes {random 0..40 bytes, 32-byte, mix with nil/empty, tiny} x {Blake2b,Keccak}; longer random lengths 71..470) on which N, Mb, C, M, T(v,i) for every i, Lx/Jx for every page and x=0..6 are compared with an explicit-tree model, "
           "every Jx is folded from the page subtree root to M(v), one element is changed and Mb/M must change; VerifyMerkleProof over J0 for lengths 1..20. distinct_nontrivial = distinct sequences with >=2 elements",
      technique="reference-model monitor (explicit-tree model of GP E.1, folding oracle) over all lengths 0..70 and every index",
      level_text="Differential run of every exported Merkle function against an independent explicit-tree model for every length 0..70, every index and page size; held = no divergence on what was explored.",
      note="Trusts the explicit-tree model (ceil split, 'node'/'leaf' prefixes) in harness/internal/utilities/merkle_tree/c18_test.go. PagedProofs/CE-140 users are exercised in separate parts when the erasure stand-in is available.",
      shards=(8, 16), floors={"any": {"roots_compared": 800, "traces_compared": 20000, "pages_compared": 20000, "single_element_sequences": 70}},
      exhaustive="all lengths 0..70 x every index x page sizes 2^0..2^6")

check("C19", "internal/zzverif/c19",
      rule="case = one append history (length up to 300 quick / 2000 thorough; modes: one MMR object, restart from a deep state copy at random points, through recent_history.AppendAndCommitMmr, restart with spare capacity in the backing array) "
           "checked after EVERY append against a count-based model (peak i present iff bit i of the count, = Keccak merge tree of its 2^i items, x/crypto Keccak used directly) and the super-peak fold; every slice handed out or passed in is snapshotted (header, pointers, values) and re-compared later; "
           "plus direct P() calls on caller-owned slices with holes/spare capacity. distinct_nontrivial = distinct histories + distinct P inputs",
      technique="reference-model monitor (count-based MMR model) + alias-snapshot invariant monitor over append histories",
      level_text="Every intermediate state of generated append histories is compared with an independent model and every previously returned peak list is re-checked for mutation; held = no divergence on what was explored.",
      note="Trusts the count-based model and x/crypto's Keccak. Only exported API (mmr.*, recent_history.AppendAndCommitMmr) is used.",
      shards=(8, 16), floors={"any": {"appends": 2000, "P_calls": 1500, "all_zero_items_appended": 300}},
      assumptions=[STANDIN_VRF])

check("C15", "internal/zzverif/c15",
      rule="case = one set of 0..200 (thorough 0..2000) entries with distinct 31-byte keys drawn from prefix families sharing 0..247 leading bits (divergence forced at a random bit), value lengths {nil,0,1,31,32,33,64,random<=200}; "
           "MerklizationSerializedState on 3 random permutations must equal the root of an explicit bit-by-bit insertion trie (x/crypto blake2b), must not reorder its input, and the WithCache variant must agree. distinct_nontrivial = distinct model roots of sets with >=2 entries",
      technique="reference-model monitor (explicit insertion trie vs in-place partition) over generated entry sets and permutations",
      level_text="Differential run against an independent trie model on generated entry sets with adversarial shared prefixes and values around the 32-byte boundary; held = no divergence on what was explored.",
      note="Trusts the node layout as given in the property statement (0x80|len embedded leaf, 0xC0 hashed leaf, branch with first bit cleared) implemented in harness/internal/zzverif/reftrie. Full-State roots are checked in C17's state generator part.",
      shards=(8, 16), floors={"any": {"entries": 50000, "max_depth_ge_200": 1}}, assumptions=[STANDIN_VRF])

check("C20", "internal/zzverif/c20",
      rule="shuffle: every length 0..1100 x {identity, repeated core-like values, random} x random/zero entropy compared with an iterative Fisher-Yates model driven by Q_l(h)=LE32 words of blake2b(h||E4(i/8)) (x/crypto), permutation and determinism checks; "
           "assignment: NewGuranatorAssignments for every slot of 3 epochs, tiny (V=6,C=2) and full (V=1023,C=341), vs model (shuffle of floor(C*i/V), rotated by (slot mod E)/R), per-core share, +1 core per rotation period, repeat-call equality. "
           "G / G* stratum: extrinsic.GFunc and GStarFunc on a posterior state (tau', eta', kappa', lambda') for the slots of the same three epochs (all tiny, every 7th full): G == (P(eta'2, tau'), kappa'), G* == (P(e, tau'-R), k) with (eta'2, kappa') when tau'-R lies in the epoch of tau' and (eta'3, lambda') otherwise (slots below R not judged). distinct_nontrivial = distinct (length>=2, entropy) shuffles + distinct (mode, entropy, slot) assignments",
      technique="reference-model monitor (Fisher-Yates / rotation model) + invariant monitor (permutation, share, rotation), every length 0..1100",
      level_text="Differential run against an independent model on every length 0..1100 and every slot of three epochs under both parameter sets; held = no divergence on what was explored.",
      note="Trusts the F.1-F.3 model in harness/internal/zzverif/c20. Cross-process determinism follows from equality with the deterministic model in every shard process.",
      shards=(8, 16), floors={"any": {"shuffles": 3000, "assignments_tiny": 100, "assignments_full": 1000, "rotation_pairs": 500, "g_and_gstar_compared": 400, "gstar_from_the_previous_epoch": 20}},
      exhaustive="all sequence lengths 0..1100; all slots of 3 epochs (tiny and full)", assumptions=[STANDIN_VRF])

check("C29", "internal/zzverif/c29",
      rule="grid: every validator count V in 0..1100; all index pairs (including -1 and V) for V<=40 (thorough <=120), 200 structured pairs (last partial row, same row, same column, equal) beyond; IsNeighborInEpoch vs integer-sqrt model, symmetry, irreflexivity, NeighborIndicesInEpoch, AllNeighborValidators (+ same index in previous/next epoch, epochs of different size), ValidatorManager.IsNeighbor; "
           "initiator: random and adversarial key pairs (equal, differing only in bit 7 of byte 31, only in byte 0, single bit) checked for symmetry, membership and the definition. distinct_nontrivial = distinct V>=2 + distinct key pairs",
      technique="reference-model monitor (grid definition with integer sqrt) + symmetry invariant monitor, all V in 0..1100",
      level_text="Exhaustive over validator counts 0..1100 (all pairs for small counts) and sampled adversarial key pairs; held = no divergence on what was explored.",
      note="Trusts the 10-line grid definition in the harness.",
      shards=(8, 16), floors={"any": {"pairs": 100000, "key_pairs": 50000}}, exhaustive="all V in 0..1100; all pairs for V<=40")

check("C24", "internal/zzverif/c24",
      rule="case = (slot, pools with duplicates over a 2..6-symbol alphabet and lengths 0..O, queues of Q entries, guarantees for half of the cores — one per core, in a fifth of them two or three naming the same core — whose authorizer is present once / several times / absent) run through STFAlpha2AlphaPrime on deep copies (with and without spare capacity) and every 10th through Authorization() on the singleton; tiny params, every 50th case full params (C=341); "
           "compared with a 20-line model (for each guarantee of the core in extrinsic order remove the leftmost occurrence of its authorizer, append queue[slot mod Q], keep last O). distinct_nontrivial = distinct (pools, slot, guarantees)",
      technique="reference-model monitor (authorizer-pool model) over generated pools/queues/guarantees",
      level_text="Differential run against an independent 20-line model on generated transitions under both parameter sets; held = no divergence on what was explored.",
      note="Trusts the pool model in the harness. In-place mutation of the prior pool's backing array is not judged here (atomicity is C26's concern). Cores with a nil pool AND a guarantee are not generated (guarantee validation rejects them earlier).",
      shards=(8, 16), floors={"any": {"with_guarantees": 20000, "authorizer_absent": 1000, "authorizer_duplicated": 1000, "via_singleton": 1000, "full_params": 100, "blocks_with_several_guarantees_for_one_core": 3000, "slots_at_or_above_2^16": 10000}},
      assumptions=[STANDIN_VRF])

check("C25", "internal/zzverif/c25",
      rule="case = one block history of 3H..3H+7 blocks, each with 0..C+2 guarantees (package hashes sharing a 31-byte prefix half of the time), 0..6 accumulation outputs and a random parent state root, driven through the production path (singleton: prior beta, latest block, posterior theta; STFBetaH2BetaHDagger + STFBetaHDagger2BetaHPrime), carrying either the very objects or deep copies forward; when the objects are carried, a third of the blocks are preceded by a DISCARDED sibling block computed on the same prior-state objects (a candidate that is thrown away, a fork), of which the real block must see no trace; "
           "after every block beta_H' and beta_B' are compared with an independent model (refmerkle MMR + M_B with Keccak, header hash = blake2b of the encoded header); plus pure-helper cases for AddItem2BetaHPrime and MapWorkReportFromEg. distinct_nontrivial = distinct histories + pure cases",
      technique="reference-model monitor (recent-history + MMR model) over generated block histories longer than H",
      level_text="Every block of generated histories is compared with an independent model of 7.5-7.8; held = no divergence on what was explored.",
      note="Trusts the model in harness/internal/zzverif/c25 and refmerkle; the header hash uses the repository's own header encoder (covered by C11).",
      shards=(8, 16), floors={"any": {"blocks": 5000, "blocks_with_several_packages": 500, "blocks_dropping_oldest": 1000, "discarded_sibling_blocks_on_a_full_history": 300, "histories_on_a_long_lived_chain_state_instance": 200}}, assumptions=[STANDIN_VRF])

PVM_NOTE = ("Trusts refpvm (harness/internal/zzverif/refpvm: ~800 lines written from GP 0.7.2 App. A, no shared code). Not judged (DESIGN §3): sbrk results (U2), "
            "accesses wrapping past 2^32 (U14), branches landing at/after the end of the code (U15), programs with more than 24 operand bytes after an opcode (U17), "
            "start pcs that are not instruction starts (U1), registers after a panic raised by opcodes 80/180 (U10).")

check("C01", "PVM",
      rule="case = (program blob, start pc, gas, 13 registers, page map) executed by SingleStepInvokeDecodedBlocks and by refpvm segment by segment across host calls (identical host effect applied to both); compared: exit kind, gas, registers, every page, resume pc, host-call id, fault address window. "
           "strata: compiler-like programs (exact operand lengths, all 138 modelled opcodes, branches to block starts, jump tables, halts; ANY divergence is a violation), operand grid (every opcode byte 0..255 x 12 first-operand bytes x 12 second-operand bytes x skip 0..24 x {start, middle, code ends 0..9 bytes after the opcode}; exhaustive in the thorough tier, 1/18 subsample in quick), "
           "hostile programs (random bytes, bitmasks, jump tables with z in {0,1,2,3,4,8}), and ecalli dispatch through Host.HostCall with recording omega tables (ids 0..2^64-1, holes, table sizes 27..256). distinct_nontrivial = distinct (blob, gas) / grid cells with a valid opcode / (id, table, gas) triples",
      technique="reference-model monitor (independent GP App. A interpreter, lock-step differential across host-call boundaries) + dispatch-log monitor at the omega table",
      level_text="Every generated execution of the real block engine is compared state-for-state with an independent Gray Paper interpreter; the operand grid is enumerated completely in the thorough tier. Held = no divergence on what was explored.",
      note=PVM_NOTE, shards=(8, 16),
      floors={"any": {"compiler_distinct_opcodes": 130, "compiler_exit_halt": 100, "compiler_exit_host-call": 100, "compiler_exit_out-of-gas": 100, "compiler_exit_page-fault": 100, "compiler_exit_panic": 100,
                      "dispatch_known": 1000, "dispatch_unknown": 1000, "dispatch_id_ge_256": 1000, "grid_model_steps": 100000}},
      exhaustive="thorough tier: the complete operand grid 256 x 12 x 12 x 25 x 3")

check("C02", "PVM",
      rule="case = the C01 corpus (compiler-like programs, operand grid, hostile programs; same generators and seeds) executed from identical deep-copied state by SingleStepInvokeDecodedBlocks (block engine) and SingleStepInvoke (step engine), segment by segment with identical register/gas edits at host calls; "
           "compared: exit kind, gas, registers (not after panic), host-call id, fault address, next pc (normalised: the step engine reports the ecalli pc, the block engine the fall-through pc), every page. refpvm only labels which side deviates and excludes the cases it does not judge. distinct_nontrivial = distinct cases",
      technique="differential monitor (block engine vs step engine in lock-step across host calls; refpvm only labels the deviating side)",
      level_text="Each engine is the other's oracle on every generated program and state, including resumption after host calls; the operand grid is complete in the thorough tier. Held = no difference on what was explored.",
      note=PVM_NOTE, shards=(8, 16), floors={"any": {"compared_compiler": 10000, "compared_grid": 100000, "compared_hostile": 30000}},
      exhaustive="thorough tier: the complete operand grid 256 x 12 x 12 x 25 x 3")

check("C04", "PVM",
      rule="part A: compiler-like programs run by the block engine with EVERY gas limit g in 0..S+1 (S = model steps to termination, 300 for looping programs) and compared with refpvm run with the same g (exit, remaining gas, registers, memory, pc); "
           "part B: Psi_M on standard programs (random o/w/z/s, argument) with limits {4 random < 150} + 2 of {2^31, 2^32, 2^62, 2^63-1, 2^63, 2^63+1, 2^64-1} and recording omegas charging 10: reported gas used must be within [0, limit], equal limit - max(remaining,0) of the model, result kind equal. "
           "part C: sequences of 1..40 calls of the REAL accumulate/refine host calls on a generated context (the C07 driver): every call costs exactly 10, a call with gas < 10 is out-of-gas without effects, a successful transfer costs 10 + l in exact unsigned arithmetic and l may not exceed the gas left (l drawn from small values, around the remaining gas, the 64-bit boundary pool and around 2^63). "
           "part D: `ecalli id; trap` through Psi_H with every limit 1..14 and ids that are known, unknown or defined in the other table only: with fewer than 10 units left after the ecalli the invocation ends out-of-gas without any effect and the gas it reports as used is the whole limit; with exactly 10 the call is paid and 0 is left. distinct_nontrivial = distinct programs with >= 2 steps + distinct (program, wrapper) pairs + host-call sequences",
      technique="reference-model monitor at every gas limit 0..S+1 (gas-stepping) + invocation-result monitor for Psi_M with limits up to 2^64-1 + charge monitor wrapped around the real host-call tables",
      level_text="Every prefix of every generated execution is checked by running it with each smaller gas limit; reported usage is checked up to the largest representable limit. Held = no divergence on what was explored.",
      note=PVM_NOTE, shards=(8, 16), floors={"any": {"limit_runs": 50000, "oog_strictly_inside": 20000, "psim_runs": 8000, "psim_limits_ge_2^63": 500, "calls": 50000, "transfer_calls_ok": 300, "transfer_calls_oog": 100, "transfer_calls_with_l_ge_2^63": 100, "limit_runs_block": 20000, "limit_runs_step": 20000, "host_calls_the_gas_could_not_pay_for": 700, "host_calls_paid_with_the_last_units": 50, "host_calls_the_gas_could_just_pay_for": 150}})

check("C05", "PVM",
      rule="part A: straight-line programs of loads/stores of every width and addressing form (direct, immediate, indirect, immediate-indirect) aimed at +-10 bytes around the edges of read-write, read-only and unmapped pages, 2^16 and the top of the address space; the block engine is run with gas 0,1,2,... and every pair of consecutive states is checked against a shadow page map: "
           "an access that is not permitted (or touches < 2^16) must not complete, must panic (< 2^16) or page-fault, and must leave registers and memory unchanged; a permitted access must complete with exactly the expected register / byte changes; any other opcode must leave memory unchanged. "
           "part B: sbrk sequences on SingleInitializer-built memory (increments 0, 1, page+-1, small, just beyond the limit, 2^32, 2^64-1): only sbrk adds pages, new pages are zero, read-write, inside [old heap pointer page, new heap pointer page] and below the stack boundary, existing pages untouched, a granted range is writable, a refused request maps nothing. "
           "part C: a script of 2..8 page calls (modes 0..4 over pages 16, 30..36, 47..51, access withdrawn again in a third of the later calls) is executed through the REAL machine / pages / poke host calls on an inner machine; the resulting page map must equal the GP model of `pages` (inaccessible / read-only / read-write, refused when modes 3/4 meet an inaccessible page), nothing outside the ranges may be mapped, "
           "and a load/store program aimed at the edges of exactly those pages is then gas-stepped under the same frame monitor on a copy of the inner machine's memory (step engine and block engine alternately). distinct_nontrivial = distinct programs (+ page-call scripts)",
      technique="invariant monitor on consecutive machine states obtained by gas-stepping (shadow page map frame conditions for loads, stores, sbrk and all other opcodes), on generated page maps and on page maps built by the real inner-machine host calls",
      level_text="Frame conditions derived from the page map alone are asserted on every executed instruction of generated memory-heavy programs. Held = no violated invariant on what was explored.",
      note="Operands are decoded with refpvm.Decode (independent of refpvm.Step). Present-but-inaccessible page objects are not planted by hand; whatever the real pages host call leaves behind is what part C runs on. A growth up to the limit itself (~4 GiB of pages) is not explored. Accesses wrapping past 2^32 are not judged (U14).",
      shards=(8, 16), floors={"any": {"loads_completed": 3000, "stores_completed": 5000, "faulting_accesses_load": 1000, "faulting_accesses_store": 3000, "cross_page_accesses_completed": 50, "sbrk_grown": 2000, "sbrk_refused": 2000, "inner_page_maps": 3000, "inner_page_maps_with_withdrawn_pages": 1500}})

check("C03", "PVM",
      rule="case = one untrusted byte string derived from a valid program (compiler-like / hostile blob, standard-program wrapper) by one or two of {none, truncation, bit flips, natural-number field := boundary value, 32-bit length field := boundary value, random bytes, garbage suffix, byte := 00/FF}, plus EVERY truncation of a few valid blobs, plus well-formed programs started on both engines directly from arbitrary boundary-biased register contents and memory maps (what `invoke` hands to an inner machine; finds host-language faults that depend on operand values), "
           "fed to DeBlobProgramCode, SingleInitializer, Psi_M, Psi_A (code as service preimage, with and without metadata prefix), RefineInvoke (code through historical lookup) and machine+invoke (blob in guest memory), gas <= 10^4. Input is logged to disk before each call; monitors: recover()/process death, TotalAlloc delta <= 64 MiB + 8 x (len + sizes the blob declares), return within 60 s. distinct_nontrivial = distinct (target, bytes)",
      technique="crash / allocation / progress monitors over mutated program blobs in isolated child processes (input logged before every call) + Go native coverage-guided fuzzing of the same entry points with a panic monitor",
      level_text="Every call on untrusted bytes is watched for Go panics, process death, allocation beyond the declared bound and non-termination; held = none observed on what was explored (open finding C03-F2 is re-confirmed by a dedicated trigger case).",
      note="The 60 s bound is the only wall-clock verdict (10^4 instructions take microseconds). Psi_I is not driven (fixed 50M gas). The structured generator is seeded by VERIF_SEED; the native-fuzz part (Go's coverage-guided fuzzer over the same six targets, seeded with valid programs, bounded by an execution count: 25 000 quick, 3 000 000 thorough) is not seedable and its executions differ from run to run — its oracle (no Go panic) does not.",
      shards=(8, 16), floors={"any": {"calls_DeBlobProgramCode": 3000, "calls_Psi_M": 3000, "calls_Psi_A": 3000, "calls_RefineInvoke": 3000, "calls_machine+invoke": 3000, "calls_SingleInitializer": 3000, "native_fuzz_execs": 20000, "runs_from_arbitrary_registers_block-engine": 8000, "runs_from_arbitrary_registers_step-engine": 8000, "headers_cut_inside_a_natural_number": 70}},
      extra_parts=[{"name": "nativefuzz", "pkg": "PVM", "fuzz": "FuzzVerifC03", "fuzz_execs": {"quick": 25000, "thorough": 3000000}, "timeout": {"quick": 600, "thorough": 7200}}],
      timeout=(1200, 7200))

check("C06", "PVM",
      rule="case = standard program blob with |o|,|w|,s,|a| from {0,1,4095,4096,4097,8191,8192,65535,65536,65537, random<70000, 2^24-1 (thorough)} and z from {0,1,15,16,17,255,65535 (thorough)}, random contents; SingleInitializer's page map (address, access, content of EVERY page, no extra page), registers and returned code compared with a 40-line model of GP A.7; every proper prefix of small valid blobs must be rejected. distinct_nontrivial = distinct (|o|,|w|,z,s,|a|) tuples + prefix seeds",
      technique="reference-model monitor (GP A.7 layout model) over a size grid",
      level_text="The complete page map produced by the initialiser is compared with an independent layout model on a boundary-biased size grid. Held = no divergence on what was explored.",
      note="Layouts above 2^32 are unreachable with the 3-byte length fields (U5); trailing bytes after the code are not judged (U13).",
      shards=(8, 16), floors={"any": {"layouts": 2000, "layouts_arg_ge_one_page": 500, "prefixes_rejected": 2000, "layouts_with_an_argument_of_about_the_input_zone_size": 10}})

HC_NOTE = ("Host calls are invoked through the real omega tables (AccumulateOmegas incl. the wrapWithG variants, RefineOmegas) on contexts wired exactly like Psi_A wires them. The logical projection merges dictionary entries with the raw state-key pool, so moving an entry from the pool into a dictionary is not a change. "
           "Registers after a PANIC exit are not judged (U6). Parameters: tiny.")

check("C07", "PVM",
      rule="case = one generated accumulation/refinement context (caller + 0..3 accounts with storage, preimages, lookups - some only in the raw pool -, privileges, queues; guest memory of 4 RW pages + 1 RO page) driven through 1..40 host calls (all 28 identifiers incl. log, arguments biased to the edges of the mapped ranges, lengths {0, small, 2^32, random 64-bit}, own/other/absent/2^64-1 service ids and 64-bit values whose low half is an existing id); after EVERY call the frame table is evaluated on pre/post snapshots of registers, gas, every guest page, the logical projection of X and Y and the inner-machine table: "
           "only ω7 (+ω8 for query/invoke, none for log) may change; gas -10 (transfer -10-l); unreadable required input => PANIC; PANIC or error code => memory and context unchanged; memory changes only inside the destination range; Y changes only at checkpoint; a service argument >= 2^32 (other than 2^64-1 = caller) names no service: lookup / read / info / historical_lookup answer NONE and write nothing, eject / provide / transfer answer WHO and change nothing; a lookup length z >= 2^32 is the length of no entry: query answers NONE, forget HUH; after every call the guest ranges it was given are scrambled and the context and inner machines must stay as they were (no retained views of guest memory). Plus `ecalli id` programs for identifiers absent from the real table (27..99, 101..255, >255, sign-extended): ω7=WHAT, gas -10, nothing else. distinct_nontrivial = distinct contexts + distinct (id, table)",
      technique="invariant monitor at the omega-table boundary (per-call frame table over pre/post snapshots)",
      level_text="Every call of generated host-call sequences is checked against its register/memory/context frame; held = no frame violation on what was explored.",
      note=HC_NOTE, shards=(8, 16), floors={"any": {"calls": 50000, "unknown_ids": 2000, "calls_naming_a_service_outside_the_32_bit_range": 300, "calls_with_a_lookup_length_outside_the_32_bit_range": 60, "alias_probes": 5000}})

check("C08", "PVM",
      rule="the C07 sequence driver with the ledger monitor: after every call the exact (math/big) sum of all balances in X plus the amounts of X's deferred transfers must not increase; balances change only in successful new/transfer/eject, by exactly the specified amount (creator -a_t and new account +a_t with a_t = 100+10*2+81+l, sender -amount with the transfer recorded as requested, caller +ejected balance and the account removed); success requires the caller to stay at or above its own threshold, CASH requires that it would not; amounts/lengths drawn around the balance, 2^32 and 2^64. "
           "Plus Psi_A runs crediting 0..4 incoming transfers to a service whose code traps or halts, and whole accumulations (the C10 program generator: 1..25 host calls, ending in halt / trap / bad jump / panicking call, and a second run cut off by out-of-gas at a random point) after which balances plus the transfers handed back must not exceed the total before. distinct_nontrivial = distinct contexts + credit cases + whole accumulations",
      technique="conservation monitor (big-integer token ledger) at the omega-table boundary + Psi_A result check",
      level_text="A big-integer ledger is re-computed after every host call of generated sequences; held = conservation and exactness on what was explored.",
      note=HC_NOTE, shards=(8, 16), floors={"any": {"ledger_new_ok": 500, "ledger_new_cash": 300, "ledger_transfer_ok": 500, "ledger_transfer_cash": 500, "ledger_eject_ok": 1, "credit_cases": 1000, "whole_accumulations_halt": 300, "whole_accumulations_exceptional": 500, "whole_accumulations_out_of_gas": 1000, "whole_accumulations_returning_transfers": 300}})

check("C09", "PVM",
      rule="the C07 sequence driver with the footprint monitor: after every call, for every account in X, recorded items/octets must equal 2*|lookups|+|storage| and sum(81+z)+sum(34+|k|+|v|) recomputed from the dictionaries and the planted raw-pool entries still in the pool; an accepted write/solicit must leave threshold <= balance; info must report the big-integer threshold. "
           "Plus an exhaustive grid for CalcThresholdBalance: items {0,1,2, 2^32/10-2..+2, 2^31, 2^32-2, 2^32-1} x octets {0,1,2^32,2^63 (+1), 2^64-1-d for d=0,3,..,111} x gratis offsets {0,1,2^63,2^64-2,2^64-1, raw-100, raw-1, raw, raw+1, raw+100}; points whose exact value exceeds 2^64-1 are counted, not judged (U7). distinct_nontrivial = distinct contexts + grid points",
      technique="invariant monitor (recount from the actual containers, big-integer threshold) at the omega-table boundary + exhaustive threshold grid",
      level_text="Footprint bookkeeping is recomputed from the containers after every host call and the threshold formula is checked on an exhaustive boundary grid; held = agreement on what was explored.",
      note=HC_NOTE, shards=(8, 16), floors={"any": {"footprint_mutations_ok": 3000, "footprint_FULL": 100, "footprint_info_checked": 100, "threshold_points": 2000}},
      exhaustive="threshold grid (11 item counts x 46 octet counts x 8-10 offsets)")

check("C10", "PVM",
      rule="case = one generated accumulate-entry service program (1..25 host calls drawn from write, transfer, new, solicit, forget, yield, solicit+provide, bless/assign/designate, checkpoint with arguments in the data section; ending: halt with output length {0,1,31,32,33}, trap, invalid dynamic jump) run through Psi_A on a generated context, twice: with ample gas (ends as designed) and with a random limit below the gas the first run used (out of gas inside). "
           "The global accumulate omega table is wrapped: the logical projection of X is serialised after every call and at every checkpoint; the Psi_A result (accounts, privileges, queues, validator keys, transfers, yield/return hash, provided blobs, raw storage pool) must equal the latest X (halt; a 32-byte output overrides the yield) or the snapshot at the most recent checkpoint / the initial context (panic, out of gas). distinct_nontrivial = distinct programs",
      technique="snapshot-at-checkpoint monitor at the omega-table boundary compared with the invocation result",
      level_text="Byte-level snapshots taken at checkpoint time are compared with what the invocation finally returns, for every ending kind; held = exact agreement on what was explored.",
      note=HC_NOTE, shards=(8, 16),
      floors={"any": {"ending_trap": 100, "ending_bad-jump": 100, "ending_halt_out32": 100, "ending_halt_out0": 50, "ending_halt_out33": 50, "ending_out_of_gas": 1000, "oog_after_checkpoint": 300, "programs_with_checkpoint_and_mutation": 500}})

check("C33", "PVM",
      rule="case = one sequence of 1..30 refine host calls (machine, pages, poke, invoke, peek, expunge through the real RefineOmegas table) on an outer machine with 4 RW + 1 RO canary pages: "
           "machine with valid (assembled: loads/stores into 0x10000..0x15fff, ecalli 0..299, halt/trap/loop/fault), hostile and random blobs, sources running off the mapped range; pages with p around 14..21, 2^20-1, random 64-bit p/c, modes 0..5; poke/peek of 0..299 bytes straddling inner page edges and the end of the outer RO page; "
           "invoke with gas 0..59 or >= 2^63, registers aimed at inner pages, parameter block in RW or RO memory; expunge. After EVERY call: panic/continue, w7 (and w8 for invoke), the other registers, the exact bytes written to outer memory (nothing outside the destination) and the complete inner-machine table (existence, pc, program, every page's access and content) are compared with a model whose inner engine is refpvm. "
           "A call the model does not judge (gas >= 2^63, refpvm-unmodelled programs, peek z=0 on an absent machine) ends the sequence and is counted. distinct_nontrivial = distinct sequences",
      technique="reference-model monitor (model of machine/pages/poke/invoke/peek/expunge with refpvm as the inner engine) over call sequences, crash capture, outer-memory canaries",
      level_text="Every call of generated inner-machine call sequences is compared with an independent model (results, outer memory byte-for-byte, complete inner state) and watched for Go panics; held = no divergence on what was explored.",
      note=PVM_NOTE + " The fault address reported by invoke may lie anywhere in the faulting page (as for C01). Historical-lookup/export/fetch are not part of this property.",
      shards=(8, 16),
      floors={"any": {"calls_machine": 5000, "calls_pages": 5000, "calls_poke": 5000, "calls_peek": 5000, "calls_invoke": 5000, "calls_expunge": 2000,
                      "copies_ok_peek": 50, "copies_ok_poke": 30, "invoke_exit_0": 50, "invoke_exit_1": 200, "invoke_exit_2": 200, "invoke_exit_3": 100, "invoke_exit_4": 100,
                      "pages_ok_mode_0": 200, "pages_ok_mode_1": 200, "pages_ok_mode_2": 200, "pages_ok_mode_3": 100, "pages_ok_mode_4": 100}})

check("C16", "internal/blockchain",
      rule="case = one history of 3..42 steps over a key-value set with keys from shared-prefix families: add (1..12 entries, or capacity/2..3*capacity/2 entries in every 8th history), change values (one bit, across the 32-byte embedded/hashed boundary, one byte appended/dropped, fresh), restore an earlier value (A->B->A), remove, re-add a removed key with another value, swap (some keys leave while as many earlier-removed keys return with the value they had: same entry count, every leaf still cached, another key set), return to the entry set of an earlier computation (fork / rollback), explicit cache clear, recompute unchanged; "
           "3 of 4 histories start on the cache left by earlier histories. After EVERY step ChainState.ComputeStateRootWithCache (input sorted or shuffled) is compared with MerklizationSerializedState from scratch and with the explicit insertion trie (reftrie); the input must not be modified (MaxKeyLevelCacheSize is read at run time: 600). "
           "Plus KeyLevelCache.GetOrComputeLeafHash on random (key, value) histories vs EncodeLeafNodeHash. distinct_nontrivial = distinct histories (by the sequence of model roots) + kcache cases",
      technique="differential monitor over histories (cached root vs from-scratch root vs independent trie model after every step), cache length observed in-package to witness evictions at capacity",
      level_text="After every step of generated histories the cached root is compared with the uncached root and an independent trie model; held = equal on what was explored.",
      note="The harness is an in-package test (reads keyLevelCache.Len() to witness evictions); only evictions that shrink the cache are counted. Trusts reftrie (C15's model).",
      shards=(8, 16), env={"JAM_FUZZ": "1"},
      floors={"any": {"roots_compared": 20000, "steps_changing_values": 3000, "steps_restoring_an_earlier_value": 300, "explicit_clears": 1000, "computations_with_eviction_at_capacity": 20,
                      "computations_all_hits": 1000, "computations_on_a_warm_cache": 15000, "kcache_lookups": 20000, "steps_swapping_keys_at_equal_count": 500, "steps_returning_to_an_earlier_entry_set": 500}},
      assumptions=[STANDIN_VRF])

check("C27", "internal/zzverif/c27",
      rule="case = one sequence of 5..64 operations (put, delete, get+has, open up to 3 batches, batch put/delete, commit or discard a batch in any interleaving, iterate(prefix,start)) replayed identically on the memory provider, Pebble (in-memory VFS) and the Redis provider (against miniredis); keys of 1..4 bytes over a 17-symbol alphabet that contains the SCAN glob metacharacters * ? [ ] \\ ^ -, 0x00 and 0xFF (a 3-symbol alphabet in every 3rd case, the 14 ASCII symbols in another third; sequences with bytes >= 0x80 are not driven through miniredis, which panics on non-UTF-8 SCAN patterns), "
           "iteration ranges derived from existing keys (prefix = any cut, start = any cut of the rest, last byte +-1). Every key/value/prefix/start slice passed in is scrambled right after the call and every slice returned by Get is scrambled and read again. "
           "Compared with an ordered-map model: get/has results, iteration key list (membership AND order) and values, invisibility of uncommitted or discarded batches, the whole content every 4 steps. distinct_nontrivial = distinct (operation trace, final content)",
      technique="reference-model monitor (ordered map) over operation sequences, replayed on the three providers, with argument/result scrambling as aliasing monitor",
      level_text="Every observable result of generated operation sequences on all three providers is compared with an ordered-map model; held = no divergence on what was explored.",
      note="Redis is the repository's provider against miniredis v2.34 (the server the repository's own test uses), not a real server. Empty keys, use after Close and concurrent use are not generated; iterators are consumed immediately (the documented validity of Key()/Value() is 'until Next').",
      shards=(8, 16),
      floors={"any": {"puts": 20000, "deletes": 10000, "gets": 20000, "batch_writes": 20000, "batches_committed_with_several_ops": 2000, "batches_discarded": 2000, "iterations_memory": 3000, "iterations_pebble": 3000, "iterations_redis": 2000, "ops_memory": 5000, "ops_pebble": 5000, "ops_redis": 3000,
                      "iterations_proper_subset": 2000, "iterations_nonempty_with_start": 1000, "full_content_comparisons": 20000, "iterations_with_a_prefix_ending_in_FF_below_an_existing_key": 150}},
      assumptions=[STANDIN_VRF, "miniredis stands in for a Redis server"])

check("C21", "internal/accumulation",
      rule="graph stratum (exhaustive): every dependency graph on 1..3 reports where each report depends on any subset of {the other reports, itself, a hash that never appears, a hash in the accumulated history}, dependencies placed in prerequisites / segment-root lookup / both, x every placement of each report as freshly available or waiting in a ready-queue slot (263 k cases); "
           "history stratum: 2..29 blocks with slot gaps {1,2,3,E-1,E,E+1}, 0..12 available reports per block with dependencies on reports of the same block, earlier blocks, the recent accumulated history, the ready queue, reports arriving in later blocks and hashes that never appear; every 4th block cuts accumulation at a random n < |W*|. "
           "Each block is driven through the singleton with the production functions (UpdateImmediatelyAccumulateWorkReports, UpdateQueuedWorkReports, UpdateAccumulatableWorkReports, updateXi, updateVartheta); W!, WQ, W* (membership and order), xi' and the ready queue' are compared with a model written from GP 12.4-12.12, 12.31-12.33 (dependency sets compared as sets), "
           "then the stated invariants are asserted on the code's own output (no report of the history chosen again, none chosen twice, dependents after their in-block dependencies, no accumulated report or accumulated dependency left in the queue). The model's posterior state is carried to the next block. distinct_nontrivial = distinct graphs x placements + distinct histories",
      technique="reference-model monitor (GP 12.x queue equations) + invariant monitor on the code's output, exhaustive small dependency graphs and generated block histories",
      level_text="Every dependency graph on up to 3 reports (all placements) and generated multi-block histories are run through the production queue functions and compared with an independent model of the equations; held = no divergence and no invariant violation on what was explored.",
      note="In-package harness (updateXi/updateVartheta are unexported). The PVM is not involved: n (how many of W* were accumulated) is chosen by the harness. Precondition as established by guarantee validation: package hashes are unique and freshly available reports are not in the accumulated history.",
      shards=(8, 16), env={"JAM_FUZZ": "1"},
      floors={"any": {"graphs_compared": 350000, "graphs_with_two_reports_of_one_package": 80000, "blocks_compared": 10000, "blocks_after_a_slot_gap": 3000, "blocks_after_a_gap_of_an_epoch_or_more": 1000, "blocks_releasing_queued_reports": 1000,
                      "blocks_with_gas_cut": 500, "blocks_with_in_block_dependency_order_checked": 1000, "histories_high_in_the_slot_range": 200}},
      exhaustive="all dependency graphs on 1..3 reports x all placements; every third graph again with two reports of one package", assumptions=[STANDIN_VRF])


CODEC_NOTE = ("Values are built by reflection over the repository's own types (harness/internal/zzverif/vgen) with the wire format's fixed lengths (V, C, E, Q, super-majority, bitfield, tickets-or-keys and work-result unions); "
              "a generated value the encoder itself rejects is counted, not judged. The type list is generated by vcheck from the tree being checked (every named type of internal/types with both Encode(*Encoder) error and Decode(*Decoder) error: 127 at this commit). Tiny parameters; import specs are coded with an empty segment-root dictionary.")

check("C11", "internal/zzverif/codec",
      rule="case = one random value of one of the serialisable types of the tree (127) (sequence sizes 0..3, byte strings 0..300, boundary-biased integers, optional fields present/absent, dictionaries of 0..3 entries): encoded with a fresh encoder and 2-4 times with pooled encoders that just encoded something else (all encodings must be identical, which also exposes map-iteration-order dependence), "
           "decoded (no error, consumed = length), compared with the original by deep equality modulo nil/empty; plus fuzz-protocol messages of all 7 kinds through MarshalBinary / ReadFrom / MarshalBinary; pool part: 40 rounds of 2..32 goroutines x 300 encodings through types.GetEncoder/PutEncoder, compared (after the encoder went back to the pool) with private-encoder encodings, under the race detector. distinct_nontrivial = distinct encodings longer than one byte + distinct frames",
      technique="round-trip and determinism monitor over reflection-generated values of every serialisable type and fuzz messages; race detector + result comparison on concurrent use of the encoder pool",
      level_text="Identity oracle (decode . encode = id, encode deterministic) on generated values of every codec type; held = no failure on what was explored.",
      note=CODEC_NOTE + " The pool part (race build) has 2..32 goroutines draw encoders from the shared pool, return them at once and compare the bytes they were handed later with encodings made by private encoders.",
      shards=(8, 16), floors={"any": {"round_trips": 20000, "types_with_round_trips": 120, "round_trips_of_values_with_dictionaries": 1500, "message_round_trips": 1000, "pooled_encodings_under_concurrency": 50000, "encodings_after_a_failed_encode_on_the_same_encoder": 10000}},
      extra_parts=[{"name": "pool", "pkg": "internal/zzverif/codec", "race": True, "test": "TestVerifC11Pool", "shards": {"quick": 4, "thorough": 8}}],
      assumptions=[STANDIN_VRF])

check("C13", "internal/zzverif/codec",
      rule="case = one byte string: the encoding of a generated value of one of the 127 serialisable types, 6 mutants of it (truncation, bit flip, discriminator byte := {0,1,2,3,7F,80,FE,FF}, hostile or non-minimal natural number inserted/overwritten, garbage suffix, byte deleted, random window, early-position byte) every proper prefix of every 10th encoding, for types containing dictionaries the window mutants (w bytes copied over / swapped with the following w bytes at every early offset), and for every second encoding of at most 96 bytes every byte one up and one down; "
           "whenever the decoder accepts (DecodeWithConsumed = n), the decoded value must re-encode without error to exactly the n consumed bytes. distinct_nontrivial = distinct accepted byte strings",
      technique="accept-implies-canonical monitor (re-encode every accepted mutant) over mutated encodings of every serialisable type",
      level_text="Every accepted mutant of generated encodings is re-encoded and compared with the consumed bytes; held = every accepted string was the canonical encoding of its value on what was explored.",
      note=CODEC_NOTE + " Trailing bytes after a complete value are the caller's concern (DecodeWithConsumed reports them); they are not judged.",
      shards=(8, 16), floors={"any": {"accepted": 20000, "accepted_mutants": 3000, "rejected": 30000, "encodings_perturbed_at_every_byte": 500}},
      assumptions=[STANDIN_VRF])

check("C14", "internal/zzverif/codec",
      rule="case = one untrusted byte string (the C13 corpus: valid encodings of the 127 serialisable types, 6 mutants each, all prefixes of every 10th) fed to the type's decoder, plus fuzz-protocol frames (valid, mutated, with the 32-bit length prefix set to 0, 1, 2, 2^20, 2^28, 2^31-1, 2^31, 2^32-1 or made consistent with the mutated payload) fed to Message.ReadFrom; "
           "the input is logged to disk before each call; monitors: recover() / process death (child processes under an address-space limit), TotalAlloc delta <= 1 MiB + 4096 x input length. distinct_nontrivial = distinct inputs",
      technique="crash and allocation monitors over mutated encodings and frames in isolated child processes (input logged before every call) + Go native coverage-guided fuzzing of all decoders and the frame reader with the same monitors",
      level_text="Every decode of untrusted bytes is watched for Go panics, process death and allocation beyond a constant multiple of the input; held = none observed on what was explored.",
      note=CODEC_NOTE + " The allocation constant (4096 bytes per input byte + 1 MiB) is far above the largest element struct; a decoder that allocates from a length prefix before reading exceeds it by orders of magnitude.",
      shards=(8, 16), floors={"any": {"decodes_watched": 50000, "frames_watched": 10000, "frames_accepted": 1000, "payload_decodes_on_exact_capacity_buffers": 50000, "native_fuzz_execs": 20000}}, mem_gb=6,
      extra_parts=[{"name": "nativefuzz", "pkg": "internal/zzverif/codec", "fuzz": "FuzzVerifC14", "fuzz_execs": {"quick": 30000, "thorough": 5000000}, "timeout": {"quick": 600, "thorough": 7200}, "parallel": 4}],
      assumptions=[STANDIN_VRF])

check("C17", "internal/zzverif/c17",
      rule="case = one generated full state (all 16 components by reflection inside the encoder's own validation domain, tiny parameters and every 40th case full; 0..8 services with ids around byte-boundary values, 0..6 storage entries with key lengths 0..40 incl. keys that extend other keys, 0..4 preimages keyed by their hash, lookup entries with a matching preimage, with another length for the same hash, and without any preimage) exported with StateEncoder; "
           "the service part of the export is compared with a model of GP D.1/D.2 key construction written in the harness; then for 4 orders of the key-values (as exported, reversed, two random permutations) StateKeyValsToState must succeed and raw ++ StateEncoder(parsed) must be the same key->value set with no duplicate key and the same root (repository merklization and the independent trie model); the parsed components must equal the original values. "
           "node stratum: FuzzServiceStub.SetState(header, shuffled key-values) followed by GetState(header hash) must return the same set and report the trie model's root. par part (race build): states with 8..48 services exported with types.MaxWorkers = 1 and then 2, 3, 8, 64 under GOMAXPROCS 16 / 4 / 2: the same key->value set every time, no race report in the encoder's worker pool. distinct_nontrivial = distinct roots of states with at least one service",
      technique="round-trip monitor over generated states and permutations (key->value set equality, duplicate detection, root equality against an independent trie) + reference model of the state-key construction + SetState/GetState at the node boundary + Go race detector and run-vs-run equality on the parallel export",
      level_text="Identity oracle on generated states: export, import in several orders, re-export with the raw entries; held = same key-value set and root on everything explored.",
      note="How the importer attributes entries (preimage / lookup / raw) is observed and reported, not judged: the statement only requires that nothing is lost or duplicated. The value under C(255,s) is not modelled (ServiceInfo codec belongs to C11). Trusts reftrie (C15's model).",
      shards=(8, 16), env={"JAM_FUZZ": "1"},
      extra_parts=[{"name": "par", "pkg": "internal/zzverif/c17", "race": True, "test": "TestVerifC17Par", "shards": {"quick": 4, "thorough": 8}}],
      floors={"any": {"parallel_exports_compared": 600, "round_trips": 8000, "services": 3000, "storage_entries": 3000, "preimages_attributed": 1000, "lookups_attributed": 500, "lookups_without_preimage": 500, "lookups_other_length": 200,
                      "raw_entries_after_import": 3000, "full_params": 20, "node_round_trips": 300}},
      assumptions=[STANDIN_VRF])

check("C31", "internal/zzverif/c31",
      rule="lookup stratum (exhaustive): every availability record of length 0..4 over the slots {0,5,10,15} (341 records, unordered ones included) x t in 0..20 x 5 account shapes (preimage + record; record without preimage; record under another length; preimage without record; other hash queried) through service_account.HistoricalLookup, and every third t also through the refine host call historical_lookup (own service via 2^64-1 or by id): the preimage is returned iff it is stored and I(record, t); records of length 4 are observed, not judged; "
           "admission stratum: 1..4 services, 1..6 requests each in one of 7 conditions (solicited in the dictionary, solicited only as the raw key-value [0], unsolicited, already provided, provided with the record still unparsed, solicited under another length, unknown service), blobs from a family of short strings that are prefixes of each other plus random ones, the extrinsic sorted by (requester, blob) and then left alone / two neighbours swapped / an entry duplicated / shuffled: "
           "ValidatePreimageExtrinsics must accept iff strictly ordered and every entry solicited and not provided, and must not modify its inputs; accepted extrinsics are integrated with ProcessPreimageExtrinsics on the singleton (in every 4th case one request is forgotten or provided between validation and integration and must be skipped): posterior accounts = prior + preimage + record [tau'], the unparsed request leaves the raw pool, nothing else changes, no duplicate raw key. distinct_nontrivial = distinct records + distinct (conditions, order, size) of extrinsics",
      technique="reference-model monitor: exhaustive table of the availability predicate I(l,t) at the library and host-call boundary + admission/integration model over generated service states and extrinsics driven through the blockchain singleton",
      level_text="Exhaustive over availability records on a slot grid; generated service states and extrinsics for admission and integration, compared with a model written from GP 9.5-9.7 and 12.38-12.43. Held = no divergence on what was explored.",
      note="An empty preimage is not generated in the lookup stratum (an empty result and 'nothing' cannot be told apart through a byte slice). Records of length 4 are outside the record's domain (at most three slots) and only observed.",
      shards=(8, 16), env={"JAM_FUZZ": "1"},
      floors={"any": {"lookups_returning_the_preimage": 800, "lookups_returning_nothing": 20000, "host_call_lookups": 5000, "extrinsics_accepted": 3000, "rejected_for_order": 1000, "rejected_for_need": 3000, "integrations": 3000,
                      "integrations_with_a_vanished_request": 500, "preimages_solicited_only_in_raw_key_values": 1000}},
      exhaustive="all availability records of length 0..3 over {0,5,10,15} x t in 0..20 x 5 account shapes", assumptions=[STANDIN_VRF])

check("C35", "internal/zzverif/c35",
      rule="case = one history of 2..8 blocks on the blockchain singleton (V = 6 validators; V = 1023 in every 200th thorough history), each block with 0..3 verdicts carrying real Ed25519 votes (ValidatorsSuperMajority votes each, sorted by index, signed with the current or the previous epoch's keys per the verdict's age), positive-vote counts drawn from {0, V/3, 2V/3+1}, targets fresh random / small hashes that sort before and between recorded ones / hashes of reports pending in rho, "
           ">= 2 culprits per bad verdict and >= 1 fault per good verdict with valid jam_guarantee / jam_valid / jam_invalid signatures by non-offender keys of kappa or lambda, epoch changes rotating kappa into lambda; a third of the blocks carry ONE mutation (vote count next to a legal one, target judged earlier, unsorted verdicts/votes/culprits, bad signature, bad age, missing culprit/fault, culprit for a non-bad verdict, offender reported again). "
           "Judged after every block: well-formed extrinsic accepted; other vote counts and already-judged targets rejected; after acceptance the three report sets are sorted, duplicate-free, pairwise disjoint and equal prior + this block's verdicts of that class; offenders sorted, superset of before, equal prior + culprit and fault keys; pending reports judged bad/wonky gone from rho-dagger, all others kept. The history continues from the last accepted state. distinct_nontrivial = distinct histories",
      technique="reference-model + invariant monitor over generated block histories with real signatures, driven through the dispute STF on the blockchain singleton",
      level_text="Classification model and set invariants checked after every block of generated dispute histories; held = no divergence or invariant violation on what was explored.",
      note="Admission rules the statement does not spell out (orderings, ages, signature validity, culprit/fault validity) are exercised by one-fault mutants but their outcome is only recorded (U11). State left behind by a REJECTED block is C26's subject.",
      shards=(8, 16), env={"JAM_FUZZ": "1"},
      floors={"any": {"blocks_accepted": 2000, "blocks_rejected": 500, "verdicts_good": 500, "verdicts_bad": 500, "verdicts_wonky": 500, "mutation_vote-split": 200, "mutation_already-judged": 50,
                      "pending_reports_cleared": 100, "pending_reports_judged_good_kept": 50, "blocks_adding_to_nonempty_records": 1000, "histories_high_in_the_slot_range": 200}},
      assumptions=[STANDIN_VRF])

check("C34", "internal/zzverif/c34",
      rule="case = one history of 3..12 blocks (tiny parameters; full parameters in every 100th history) through statistics.UpdateValidatorActivityStatistics on the blockchain singleton: slot gaps 1..3, to the first slot of the next epoch, exactly one epoch, more than two epochs; random author; 0..3 tickets, 0..3 preimages (requesters from 6 service ids incl. 0 and 2^32-1, sizes 0..5000), "
           "0..C guarantees (1..3 digests each with random refine loads, 2..3 signer indices, slot in the current or the previous rotation), assurances by up to 8 validators with random bitfields, 0..C newly available reports (export counts around 64/128 multiples), random accumulation statistics; validator key sets kappa'/lambda' partly shared and rotated at epoch changes. "
           "After every block posterior pi (current and previous validator records, core records, service records) is compared field by field with a model of GP 13.3-13.16; the model's pi is carried to the next block. distinct_nontrivial = distinct histories",
      technique="reference-model monitor over generated block histories at the statistics STF boundary (blockchain singleton), run under the Go race detector",
      level_text="Every block of generated histories is compared with an independent model of the statistics equations; the race detector watches the three concurrent updaters. Held = no divergence and no race report on what was explored.",
      note="Reporter set per GP 11.26/13.5: the Ed25519 keys of guarantee signers taken from kappa' (same rotation, or previous rotation inside the same epoch) or lambda' (previous rotation in the previous epoch); no offenders are present, histories start at tau >= E + R so that tau' - R never underflows (U12).",
      shards=(8, 16), race=True, env={"JAM_FUZZ": "1"},
      floors={"any": {"blocks": 3000, "blocks_at_an_epoch_change": 500, "guarantees": 1500, "guarantees_from_the_previous_rotation": 300, "assurances": 5000, "preimages": 3000, "blocks_with_available_reports": 1000, "service_records": 5000, "services_accumulated_without_a_report": 200, "histories_high_in_the_slot_range": 100}},
      assumptions=[STANDIN_VRF])

check("C28", "internal/telemetry",
      rule="case = one run of the real tcpClient over an in-memory fault-injecting net.Conn (installed through tcpClient.dialer): buffer size in {1,2,8,64}, 1..12 emitter goroutines x 40..200 calls of Emit / EmitLazy / EmitFollowup / EmitFollowupLazy (parents: own last ID, another emitter's last ID, InvalidID), a tenth of the events without payload (lazy builder returning nil or an empty slice, eager nil / empty payload: identified at the receiver by position and discriminator), every other payload tagged (emitter, counter) and the returned ID recorded; "
           "an injector applies 4..13 faults at random times: write error after 0..200 more bytes (also inside a frame), peer close, stall (writes parked on a channel; a burst of 3*buffer+8 emits is issued while the writer is stuck and must return), partial writes of 1..7 bytes per call on a third of the connections, failing dials, failure inside the node-info frame; Close races with the emitters in a third of the runs; GOMAXPROCS in {1,2,4,16}. "
           "After the run every connection's captured bytes are parsed by a receiver model and compared with the emitters' records (first frame = node info; implicit counter advanced by each Dropped count; delivered event's counter == seq of the ID its emitter got; one epoch per connection, growing; no event twice; nothing delivered for InvalidID; accepted follow-ups have their parent's epoch and carry its seq; no connection is given up by the client unless the harness injected a fault on it; after a clean Close of a healthy connection the receiver's counter equals the sender's next sequence number). distinct_nontrivial = distinct (connections, drop records, delivered, follow-ups, GOMAXPROCS) tuples observed",
      technique="offline checker over recorded wire streams and emitter-side ID records (receiver model of JIP-3 framing), real client under fault injection at the net.Conn boundary, Go race detector",
      level_text="Stress runs of the real client under injected connection faults; every captured stream is replayed through a receiver model and matched with the IDs the emitters received. Held = no misalignment, no blocked emitter and no race report on what was explored.",
      note="In-package harness (newTCPClient, dialer). The bounded model checking mentioned in the property's quantifier is outside this technique family and is not attempted. 'Never block' is judged as: every Emit issued while the connection's Write is parked returns (watchdog 30 s, more than 10^6 times the cost of an Emit). No sleeps are injected into the client's own code (no gofail rewrite); interleavings come from GOMAXPROCS, buffer sizes, Gosched/sleep in the emitters and the fault script.",
      shards=(8, 16), race=True, timeout=(3000, 21600),
      floors={"any": {"runs": 300, "reconnects": 300, "drop_records": 300, "events_delivered": 20000, "followups_delivered": 1000, "emits_returned_while_write_stalled": 1000, "close_racing_with_emitters": 50, "dial_failures": 30, "clean_ends_with_counter_equal_to_next_seq": 50, "followups_emitted_while_the_connection_was_replaced": 40, "payloadless_events_delivered": 500, "events_emitted_with_payloads_of_4_KiB_or_more": 3000}},
      assumptions=[STANDIN_VRF])

check("C32", "internal/zzverif/c32",
      rule="digest stratum: random work items (0..16 import specs, 0..16 extrinsic specs with lengths from {0,1,255,256,65535,65536,65537,2^20} and random < 2^20, export counts from {0,1,2,63,64,255,256,3072,65535} and random <= 3072, payloads of 0..500 bytes) x refinement outcomes (ok with output, each error kind) x gas: work_package.C must carry service, code hash, H(payload), accumulate gas and the result, "
           "and the refine load must be (gas, |imports|, |extrinsics|, sum of extrinsic lengths, export count); spec stratum: work_package.A on bundles of 1..10000 bytes and 0..20 export segments (every fourth case 63..200, i.e. two to four pages of paged proofs with a full, a short or a one-entry last page; a quarter of the segments all-zero): hash, bundle length, export count as given, exports root == M(exports) from the independent Merkle model, erasure root == M_B([H(bundle chunk c) ‖ M_B(chunks c of the segments followed by their paged proofs)]) from a model of GP 14.10 / 14.16 that shares only the Reed-Solomon encoder with the code, same result twice; "
           "report stratum: work_package.WorkReportCompute on packages of 1..4 items with a scripted executor (refinement outcomes ok / panic / out-of-gas, outputs of 0..W_R+1 bytes chosen so that the running total crosses W_R inside the package, export lists one too long or too short in a fifth of the items) compared with a model of GP 14.11 (oversize / bad exports / error / ok, only successful outputs count against later items, failed items export zero segments), then the digests, export count and exports root of the report. "
           "distinct_nontrivial = distinct (imports, extrinsics, size sum, export count) tuples where the counts differ from each other + distinct specs",
      technique="reference-model monitor (direct model of GP 14.8 / 14.16, exports root from the independent well-balanced-tree model) over generated work items and bundles",
      level_text="Every field of the digest and of the package specification is compared with a direct model on generated inputs; held = no divergence on what was explored.",
      note="The chunks under the erasure root come from the repository's own cgo wrapper and lib.rs over the stand-in Reed-Solomon crate (standin/rs-simd) in the code and in the model alike (the encoder is C30's business); paged proofs, transposition and both Merkle functions are modelled independently.",
      shards=(8, 16), needs_rs=True, env={"JAM_FUZZ": "1"},
      floors={"any": {"digests": 20000, "digests_with_extrinsic_size_over_16_bits": 5000, "specs": 150, "specs_without_exports": 20, "erasure_roots_compared": 150, "erasure_roots_compared_with_several_proof_pages": 15, "reports": 250, "report_items_ok": 150, "report_items_oversize": 30, "report_items_bad_exports": 30}},
      assumptions=[STANDIN_VRF, "third-party crate reed-solomon-simd replaced by a stand-in MDS code (standin/rs-simd); only the repository's own shard layout and bookkeeping run"])

check("C30", "internal/zzverif/c30",
      rule="tiny stratum (k=2, n=6): blobs of 1..300 bytes and the boundary sizes {1,2,3,4,5,7,8,9,4104} (a fifth all-zero), encoded with EncodeDataShards and decoded with DecodeShards from EVERY ordered pair of distinct shards (30 per blob); full stratum (k=342, n=1023): blobs of {1,683,684,685,1367,1368,1369,4104} and random <= 20000 bytes, six index sets each (first k, last k = parity only, every second, random, data shards shuffled, half data/half parity shuffled); "
           "the result must be the blob followed by zero padding to a multiple of 2k; vectors stratum: for the 12 official vectors shipped in the repository the first k shards of the encoding must equal the vector's data shards and decode back to the data (pins the shard layout independently of the stand-in). "
           "The same workload is repeated in an AddressSanitizer build and a cgocheck2 build of the harness; a C driver doing the same round trips against the same static library runs under valgrind memcheck. distinct_nontrivial = distinct blobs",
      technique="identity oracle over generated blobs and index subsets (exhaustive ordered pairs for the tiny parameters) at the Go API of the cgo wrapper; AddressSanitizer and cgocheck2 builds of the Go side; valgrind memcheck on a C driver for the Rust side",
      level_text="Round trips through the repository's cgo wrapper and lib.rs for every ordered shard pair (tiny) and sampled index sets (full), repeated under ASan, cgocheck2 and valgrind. Held = every recovery returned the padded blob and no sanitizer reported anything on what was explored.",
      note="The third-party crate reed-solomon-simd cannot be fetched; lib.rs is compiled against standin/rs-simd (systematic MDS code over GF(2^16), same API subset). Parity shard VALUES are therefore not those of the real code and are not compared with the vectors; only the repository's layout, padding, index handling and memory handling are exercised. valgrind is used on a C driver because it is useless on Go binaries.",
      shards=(4, 16), needs_rs=True, env={"VERIF_C30_VALGRIND": "1"}, mem_gb=8,
      extra_parts=[{"name": "asan", "pkg": "internal/zzverif/c30", "asan": True, "needs_rs": True, "shards": {"quick": 2, "thorough": 8}, "mem_gb": 8},
                   {"name": "cgocheck", "pkg": "internal/zzverif/c30", "needs_rs": True, "buildenv": {"GOEXPERIMENT": "cgocheck2"}, "shards": {"quick": 2, "thorough": 8}, "mem_gb": 8},
                   {"name": "par", "pkg": "internal/zzverif/c30", "needs_rs": True, "race": True, "test": "TestVerifC30Par", "shards": {"quick": 4, "thorough": 8}, "mem_gb": 8}],
      floors={"any": {"round_trips_tiny": 15000, "round_trips_full": 400, "round_trips_from_parity_shards_only": 3000, "official_vectors_systematic_part_checked": 12, "round_trips_under_valgrind": 100, "concurrent_recoveries": 3000}},
      assumptions=[STANDIN_VRF, "third-party crate reed-solomon-simd replaced by a stand-in MDS code (standin/rs-simd)"])

check("C22", "internal/accumulation",
      rule="case = one accumulation round: 2..4 sender services and 1..2 receiver services with purpose-built PVM code (a sender emits 5..20 transfers with memo = (marker, sender tag, counter), three quarters of them to the first receiver; a receiver fetches the whole input sequence and writes it under one storage key, so the delivery order becomes state; service identifiers are small in a third of the rounds, random 32-bit values in a third, and in a third from the values that conversions through rune / int32 / uint16 would fold together: 0xD800.., 0x110000.., around 2^31, near 2^32, equal low halves; in half of the rounds the senders count down 3000 or 30000 iterations first so that their accumulations overlap in time; in half of the rounds the first sender also yields the head of its input sequence and receives a transfer, so that it is accumulated in two batches of the block and leaves two entries in the output log), W* with one work result per sender; "
           "accumulation.DeferredTransfers() is executed 12..24 times from identical deep copies of the prior state with types.MaxWorkers cycling through {1,2,32} and GOMAXPROCS through {16,1,2} (every execution draws fresh map-iteration orders), and a canonical projection of everything left behind (every account with storage, preimages and lookups; privileges; authorisation queues; next validators; accumulation outputs; gas statistics; accumulated history; ready queue; raw key-values as a set) must be equal across executions. distinct_nontrivial = distinct scenarios",
      technique="run-vs-run equality monitor (the same round replayed under different worker limits, GOMAXPROCS and map-iteration draws), order made observable by recording services; Go race detector",
      level_text="Each generated round is executed 12..24 times under different scheduling parameters and the complete posterior projections are compared; the race detector watches the fan-out. Held = all executions of every round identical and no race report.",
      note="In-package harness (drives the blockchain singleton like jamtests/accumulate; W* is set directly, the queue equations are C21's subject). Only determinism is judged, not whether the delivery order is the Gray Paper's.",
      shards=(8, 16), race=True, env={"JAM_FUZZ": "1"}, timeout=(1200, 7200),
      floors={"any": {"rounds": 100, "repeated_runs_compared": 1200, "rounds_with_more_than_a_dozen_transfers_to_one_receiver": 60, "transfers_recorded_by_receivers": 2000, "rounds_with_boundary_service_ids": 20, "rounds_with_random_32_bit_service_ids": 20, "rounds_with_long_running_senders": 30, "rounds_whose_output_log_has_two_entries_of_one_service": 15, "rounds_with_two_creators_deriving_the_same_new_service_id": 8}},
      assumptions=[STANDIN_VRF])

check("C23", "internal/zzverif/c23",
      rule="case = one history of 3..5 epochs of blocks through safrole.OuterUsedSafrole on the blockchain singleton (tiny parameters; 4-block histories with full parameters in every 100th thorough case): slot gaps 1, 2..4, to the first slot of the next epoch, exactly to the end of the submission window, more than an epoch; 1 in 40 blocks with a slot that does not advance; "
           "ticket extrinsics of 0..K envelopes with ring signatures of (validator, attempt) pairs not used before in the epoch, sorted by identifier; a quarter of the blocks carry one mutation (two neighbours swapped, an envelope duplicated, a ticket that is already in the accumulator, attempt N or above, a ticket in the epoch tail, a signer outside the ring). "
           "A model of GP 6.2-6.34 decides acceptance and the posterior accumulator (E lowest of new + carried, reset at an epoch change), sealer sequence (outside-in of a full accumulator when the previous epoch's submission window had closed, unchanged inside an epoch, fallback keys otherwise), entropy and key sets; the accumulator must be strictly increasing and at most E long. Every second history continues from the slices the node itself holds, as a running node does (after an accepted block the posterior accumulator and sealer tickets as returned, after a rejected block the very slices handed in; every second block with spare capacity behind the accumulator), the others from fresh copies of the model's state. distinct_nontrivial = distinct histories",
      technique="reference-model monitor over generated block histories at the safrole STF boundary (blockchain singleton), ticket identifiers derived with the deterministic VRF stand-in",
      level_text="Every block of generated multi-epoch histories is decided by an independent model of the safrole equations and compared with the node's acceptance and posterior state; held = no divergence on what was explored.",
      note="Ring signatures, ticket identifiers and the entropy output come from the VRF stand-in (standin/vrf), which the harness also calls directly to make tickets; no cryptographic property is judged. The number of tickets per block is not judged against K (U-note in DESIGN §C23); validator sets without offenders.",
      shards=(8, 16), env={"JAM_FUZZ": "1"},
      floors={"any": {"blocks_accepted": 5000, "blocks_rejected": 800, "epoch_changes_with_ticket_sealers": 40, "epoch_changes_with_fallback_sealers": 100, "blocks_with_full_accumulator": 500, "blocks_where_tickets_were_pushed_out": 100,
                      "rejected: not strictly increasing by identifier": 100, "rejected: ticket already in the accumulator": 30, "rejected: attempt out of range": 100, "rejected: tickets after the submission window": 30, "rejected: bad ring proof": 100, "histories_high_in_the_slot_range": 30,
                      "blocks_continuing_from_the_node's_own_slices": 2000, "rejected_blocks_whose_prior_slices_are_used_again": 300}},
      assumptions=[STANDIN_VRF])

check("C26", "internal/zzverif/c26",
      rule="case = one chain of 20..44 valid blocks on a synthetic genesis (6 validators, a service with storage; slot gaps 1, 2..4 and more than an epoch; 0..K ring-signed tickets per block so that later epochs are ticket-sealed; epoch marks and tickets marks where due), produced by a GP chapter 6 model with the VRF stand-in and imported through fuzz.FuzzServiceStub: "
           "(1) a control node imports the valid blocks only and defines every block's root; (2) a second fresh node must reproduce the first roots; (3) a node under test imports the same chain with 0..2 hostile imports before each block: slot not advancing, wrong parent state root, wrong extrinsic hash, unsorted tickets under a correct hash and seal, flipped seal byte, flipped entropy-source byte, wrong author (all re-sealed so that only the named defect is present), four kinds that pass every header check and fail late in the transition (unsolicited preimage, assurance / guarantee with bad signatures, a re-signed ticket that is already in the parent's accumulator — the rejection reasons of that kind are counted), a valid sibling fork, a re-import of an earlier block; half of the rejected blocks are retried, and after a third of them the next valid block is re-parented onto the rejected block, sealed again and imported (a node that never saw the rejected block does not know that parent). "
           "Judged: every hostile invalid block is rejected, and rejected again on retry for the same reason (except the guarantee whose two bad signatures are checked by concurrent workers); no child of a rejected block is accepted; after a rejection GetState of the last three imported blocks returns exactly the key-values it returned before; every valid block imports with the control node's root; GetState(head) merklizes to the returned root. distinct_nontrivial = distinct hostile traces",
      technique="offline comparison of import logs from a control run and a hostile run of the real node (FuzzServiceStub), block producer = reference model of GP chapter 6 with the deterministic VRF stand-in",
      level_text="Generated chains with invalid blocks, retries and forks are imported and compared with a control import of the valid blocks; held = same roots, unchanged stored state after every rejection, on everything explored.",
      note="Runs under JAM_FUZZ=1 (the conformance configuration: in-memory store, 24-block retention). Only the tickets extrinsic is non-empty; guarantees, assurances, disputes and preimages are covered by their own checks at their STF boundaries. Blocks are valid with respect to the VRF stand-in, not real Bandersnatch.",
      shards=(8, 16), env={"JAM_FUZZ": "1"}, timeout=(1200, 7200),
      floors={"any": {"valid_blocks_on_the_node_under_test": 1500, "rejections": 500, "retries_of_rejected_blocks": 200, "forks": 60, "ticket_sealed_blocks": 100, "epoch_changes": 100, "late_failing_blocks": 200, "children_of_rejected_blocks": 100, "hostile: ticket already in the accumulator": 40}},
      assumptions=[STANDIN_VRF])
