"""Registry of checks: id -> parts (repo package hosting the harness test), tiers, floors, evidence text."""

STANDIN_VRF = "pkg/Rust-VRF is an empty submodule: a deterministic pure-Go stand-in with the same API is injected by overlay (DESIGN §1.3)"

CHECKS = {}


def check(cid, pkg, rule, technique, level_text, note, shards=(4, 16), race=False, floors=None, assumptions=None,
          extra_parts=None, exhaustive=None, timeout=None, **kw):
    part = {"name": "main", "pkg": pkg, "race": race, "shards": {"quick": shards[0], "thorough": shards[1]}}
    if timeout:
        part["timeout"] = {"quick": timeout[0], "thorough": timeout[1]}
    part.update(kw)
    CHECKS[cid] = {
        "parts": [part] + (extra_parts or []),
        "rule": rule, "technique": technique, "level": "exploration", "level_text": level_text, "note": note,
        "floors": floors or {}, "assumptions": assumptions or [], "exhaustive": exhaustive,
    }


check("C12", "internal/zzverif/c12",
      rule="case = one byte string or one value fed to all 6 codec entry points (types.DecodeUint, types reader, utilities, PVM.ReadUintVariable, telemetry, fuzz compact) and compared with a 15-line model of GP C.6; "
           "strata: every string of length 1..3 (exhaustive, one 'case' per first byte), 2^k-1/2^k/2^k+1 for k<64, random/boundary values with every proper prefix, random strings of every length class biased to non-minimal payloads, 9-byte 0xFF strings; "
           "distinct_nontrivial = distinct values / strings beyond the exhaustive stratum + first bytes enumerated",
      technique="reference-model monitor (differential against an executable model of GP C.6) over exhaustive + boundary + random inputs",
      level_text="Every one of the five implementations is run on the same inputs and compared with an independent model: exhaustive for all strings up to 3 bytes, sampled beyond. Held = no divergence on what was explored.",
      note="Trusts the 15-line model of C.6 in harness/internal/zzverif/c12; fuzz's unexported compactEncode/Decode are reached through an overlay-only export shim.",
      shards=(8, 16), floors={"any": {"exh3_strings": 16843008, "values": 1000}},
      exhaustive="all byte strings of length 1..3 x 6 decoders", assumptions=[STANDIN_VRF])

check("C18", "internal/utilities/merkle_tree",
      rule="case = one blob sequence (every length 0..70 x element modes {random 0..40 bytes, 32-byte, mix with nil/empty, tiny} x {Blake2b,Keccak}; longer random lengths 71..470) on which N, Mb, C, M, T(v,i) for every i, Lx/Jx for every page and x=0..6 are compared with an explicit-tree model, "
           "every Jx is folded from the page subtree root to M(v), one element is changed and Mb/M must change; VerifyMerkleProof over J0 for lengths 1..20. distinct_nontrivial = distinct sequences with >=2 elements",
      technique="reference-model monitor (explicit-tree model of GP E.1, folding oracle) over all lengths 0..70 and every index",
      level_text="Differential run of every exported Merkle function against an independent explicit-tree model for every length 0..70, every index and page size; held = no divergence on what was explored.",
      note="Trusts the explicit-tree model (ceil split, 'node'/'leaf' prefixes) in harness/internal/utilities/merkle_tree/c18_test.go. PagedProofs/CE-140 users are exercised in separate parts when the erasure stand-in is available.",
      shards=(8, 16), floors={"any": {"roots_compared": 800, "traces_compared": 20000, "pages_compared": 20000}},
      exhaustive="all lengths 0..70 x every index x page sizes 2^0..2^6")

check("C19", "internal/zzverif/c19",
      rule="case = one append history (length up to 300 quick / 2000 thorough; modes: one MMR object, restart from a deep state copy at random points, through recent_history.AppendAndCommitMmr, restart with spare capacity in the backing array) "
           "checked after EVERY append against a count-based model (peak i present iff bit i of the count, = Keccak merge tree of its 2^i items, x/crypto Keccak used directly) and the super-peak fold; every slice handed out or passed in is snapshotted (header, pointers, values) and re-compared later; "
           "plus direct P() calls on caller-owned slices with holes/spare capacity. distinct_nontrivial = distinct histories + distinct P inputs",
      technique="reference-model monitor (count-based MMR model) + alias-snapshot invariant monitor over append histories",
      level_text="Every intermediate state of generated append histories is compared with an independent model and every previously returned peak list is re-checked for mutation; held = no divergence on what was explored.",
      note="Trusts the count-based model and x/crypto's Keccak. Only exported API (mmr.*, recent_history.AppendAndCommitMmr) is used.",
      shards=(8, 16), floors={"any": {"appends": 2000, "P_calls": 1500}},
      assumptions=[STANDIN_VRF])

check("C15", "internal/zzverif/c15",
      rule="case = one set of 0..200 (thorough 0..2000) entries with distinct 31-byte keys drawn from prefix families sharing 0..247 leading bits (divergence forced at a random bit), value lengths {nil,0,1,31,32,33,64,random<=200}; "
           "MerklizationSerializedState on 3 random permutations must equal the root of an explicit bit-by-bit insertion trie (x/crypto blake2b), must not reorder its input, and the WithCache variant must agree. distinct_nontrivial = distinct model roots of sets with >=2 entries",
      technique="reference-model monitor (explicit insertion trie vs in-place partition) over generated entry sets and permutations",
      level_text="Differential run against an independent trie model on generated entry sets with adversarial shared prefixes and values around the 32-byte boundary; held = no divergence on what was explored.",
      note="Trusts the node layout as given in the property statement (0x80|len embedded leaf, 0xC0 hashed leaf, branch with first bit cleared) implemented in harness/internal/zzverif/reftrie. Full-State roots are checked in C17's state generator part.",
      shards=(8, 16), floors={"any": {"entries": 50000, "max_depth_ge_200": 1}}, assumptions=[STANDIN_VRF])

check("C20", "internal/zzverif/c20",
      rule="shuffle: every length 0..1100 x {identity, repeated core-like values, random} x random/zero entropy compared with an iterative Fisher-Yates model driven by Q_l(h)=LE32 words of blake2b(h||E4(i/8)) (x/crypto), permutation and determinism checks; "
           "assignment: NewGuranatorAssignments for every slot of 3 epochs, tiny (V=6,C=2) and full (V=1023,C=341), vs model (shuffle of floor(C*i/V), rotated by (slot mod E)/R), per-core share, +1 core per rotation period, repeat-call equality. "
           "distinct_nontrivial = distinct (length>=2, entropy) shuffles + distinct (mode, entropy, slot) assignments",
      technique="reference-model monitor (Fisher-Yates / rotation model) + invariant monitor (permutation, share, rotation), every length 0..1100",
      level_text="Differential run against an independent model on every length 0..1100 and every slot of three epochs under both parameter sets; held = no divergence on what was explored.",
      note="Trusts the F.1-F.3 model in harness/internal/zzverif/c20. Cross-process determinism follows from equality with the deterministic model in every shard process.",
      shards=(8, 16), floors={"any": {"shuffles": 3000, "assignments_tiny": 100, "assignments_full": 1000, "rotation_pairs": 500}},
      exhaustive="all sequence lengths 0..1100; all slots of 3 epochs (tiny and full)", assumptions=[STANDIN_VRF])

check("C29", "internal/zzverif/c29",
      rule="grid: every validator count V in 0..1100; all index pairs (including -1 and V) for V<=40 (thorough <=120), 200 structured pairs (last partial row, same row, same column, equal) beyond; IsNeighborInEpoch vs integer-sqrt model, symmetry, irreflexivity, NeighborIndicesInEpoch, AllNeighborValidators (+ same index in previous/next epoch, epochs of different size), ValidatorManager.IsNeighbor; "
           "initiator: random and adversarial key pairs (equal, differing only in bit 7 of byte 31, only in byte 0, single bit) checked for symmetry, membership and the definition. distinct_nontrivial = distinct V>=2 + distinct key pairs",
      technique="reference-model monitor (grid definition with integer sqrt) + symmetry invariant monitor, all V in 0..1100",
      level_text="Exhaustive over validator counts 0..1100 (all pairs for small counts) and sampled adversarial key pairs; held = no divergence on what was explored.",
      note="Trusts the 10-line grid definition in the harness.",
      shards=(8, 16), floors={"any": {"pairs": 100000, "key_pairs": 50000}}, exhaustive="all V in 0..1100; all pairs for V<=40")

check("C24", "internal/zzverif/c24",
      rule="case = (slot, pools with duplicates over a 2..6-symbol alphabet and lengths 0..O, queues of Q entries, 0..C guarantees whose authorizer is present once / several times / absent) run through STFAlpha2AlphaPrime on deep copies (with and without spare capacity) and every 10th through Authorization() on the singleton; tiny params, every 50th case full params (C=341); "
           "compared with a 20-line model (remove leftmost occurrence, append queue[slot mod Q], keep last O). distinct_nontrivial = distinct (pools, slot, guarantees)",
      technique="reference-model monitor (authorizer-pool model) over generated pools/queues/guarantees",
      level_text="Differential run against an independent 20-line model on generated transitions under both parameter sets; held = no divergence on what was explored.",
      note="Trusts the pool model in the harness. In-place mutation of the prior pool's backing array is not judged here (atomicity is C26's concern). Cores with a nil pool AND a guarantee are not generated (guarantee validation rejects them earlier).",
      shards=(8, 16), floors={"any": {"with_guarantees": 20000, "authorizer_absent": 1000, "authorizer_duplicated": 1000, "via_singleton": 1000, "full_params": 100}},
      assumptions=[STANDIN_VRF])

check("C25", "internal/zzverif/c25",
      rule="case = one block history of 3H..3H+7 blocks, each with 0..C+2 guarantees (package hashes sharing a 31-byte prefix half of the time), 0..6 accumulation outputs and a random parent state root, driven through the production path (singleton: prior beta, latest block, posterior theta; STFBetaH2BetaHDagger + STFBetaHDagger2BetaHPrime), carrying either the very objects or deep copies forward; "
           "after every block beta_H' and beta_B' are compared with an independent model (refmerkle MMR + M_B with Keccak, header hash = blake2b of the encoded header); plus pure-helper cases for AddItem2BetaHPrime and MapWorkReportFromEg. distinct_nontrivial = distinct histories + pure cases",
      technique="reference-model monitor (recent-history + MMR model) over generated block histories longer than H",
      level_text="Every block of generated histories is compared with an independent model of 7.5-7.8; held = no divergence on what was explored.",
      note="Trusts the model in harness/internal/zzverif/c25 and refmerkle; the header hash uses the repository's own header encoder (covered by C11).",
      shards=(8, 16), floors={"any": {"blocks": 5000, "blocks_with_several_packages": 500, "blocks_dropping_oldest": 1000}}, assumptions=[STANDIN_VRF])

PVM_NOTE = ("Trusts refpvm (harness/internal/zzverif/refpvm: ~800 lines written from GP 0.7.2 App. A, no shared code). Not judged (DESIGN §3): sbrk results (U2), "
            "accesses wrapping past 2^32 (U14), branches landing at/after the end of the code (U15), programs with more than 24 operand bytes after an opcode (U17), "
            "start pcs that are not instruction starts (U1), registers after a panic raised by opcodes 80/180 (U10).")

check("C01", "PVM",
      rule="case = (program blob, start pc, gas, 13 registers, page map) executed by SingleStepInvokeDecodedBlocks and by refpvm segment by segment across host calls (identical host effect applied to both); compared: exit kind, gas, registers, every page, resume pc, host-call id, fault address window. "
           "strata: compiler-like programs (exact operand lengths, all 138 modelled opcodes, branches to block starts, jump tables, halts; ANY divergence is a violation), operand grid (every opcode byte 0..255 x 12 first-operand bytes x 12 second-operand bytes x skip 0..24 x {start, middle, code ends 0..9 bytes after the opcode}; exhaustive in the thorough tier, 1/18 subsample in quick), "
           "hostile programs (random bytes, bitmasks, jump tables with z in {0,1,2,3,4,8}), and ecalli dispatch through Host.HostCall with recording omega tables (ids 0..2^64-1, holes, table sizes 27..256). distinct_nontrivial = distinct (blob, gas) / grid cells with a valid opcode / (id, table, gas) triples",
      technique="reference-model monitor (independent GP App. A interpreter, lock-step differential across host-call boundaries) + dispatch-log monitor at the omega table",
      level_text="Every generated execution of the real block engine is compared state-for-state with an independent Gray Paper interpreter; the operand grid is enumerated completely in the thorough tier. Held = no divergence on what was explored.",
      note=PVM_NOTE, shards=(8, 16),
      floors={"any": {"compiler_distinct_opcodes": 130, "compiler_exit_halt": 100, "compiler_exit_host-call": 100, "compiler_exit_out-of-gas": 100, "compiler_exit_page-fault": 100, "compiler_exit_panic": 100,
                      "dispatch_known": 1000, "dispatch_unknown": 1000, "dispatch_id_ge_256": 1000, "grid_model_steps": 100000}},
      exhaustive="thorough tier: the complete operand grid 256 x 12 x 12 x 25 x 3")
