#!/bin/bash
# usage: mut.sh <check-id> <file-in-repo> <python-old> <python-new>   (applies a textual mutation, runs the quick check, restores)
cid=$1; f=$2; old=$3; new=$4
cd /repo || exit 9
python3 - "$f" "$old" "$new" <<'PY' || { echo "mutation did not apply"; exit 9; }
import sys
p,old,new=sys.argv[1:4]
s=open(p).read()
if old not in s: sys.exit(1)
open(p,'w').write(s.replace(old,new,1))
PY
cd /verif && ./vcheck run $cid --tier quick 2>&1 | grep -v "^VIOLATION" | tail -3
./vcheck run $cid --tier quick 2>&1 | grep -c "^VIOLATION" | sed 's/^/violation lines: /'
cd /repo && git checkout -- .
