#!/bin/bash
# usage: rmwt.sh <name>...
for n in "$@"; do git -C /repo worktree remove --force /tmp/wt/$n 2>/dev/null; rm -rf /tmp/wt/$n; done
git -C /repo worktree prune
