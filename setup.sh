#!/bin/bash
# Offline setup: nothing to fetch. Pre-builds (warms the Go build cache for) every harness test binary.
cd "$(dirname "$0")"
export GOFLAGS=-mod=mod GOPROXY=off
unset GOSUMDB GOTOOLCHAIN
mkdir -p .work evidence replays
python3 ./vcheck warm || echo "setup: warm-up reported build problems (checks will report them individually)"
exit 0
