package PVM

import (
	"fmt"
	"strings"
	"testing"

	"github.com/New-JAMneration/JAM-Protocol/internal/zzverif/refpvm"
	"github.com/New-JAMneration/JAM-Protocol/internal/zzverif/vh"
)

// vEngineDiff runs the block engine and the step engine from the same program and state, segment by
// segment across host calls, and returns the first difference. The reference model is only used to
// say which side it agrees with (label) and to exclude the cases the model itself does not judge.
func vEngineDiff(c refpvm.Case) (class string, detail map[string]any, skipped bool) {
	detail = vCaseDetail(c)
	mp, mok := refpvm.Deblob(c.Blob)
	if !mok || mp.Overlong {
		return "", detail, true
	}
	bv, bs, bst := vNewImpl(c.Blob, c.Gas, c.Regs, c.Pages, "block")
	sv, ss, sst := vNewImpl(c.Blob, c.Gas, c.Regs, c.Pages, "step")
	if bs != "" || ss != "" {
		if bs != ss {
			detail["block_status"], detail["step_status"], detail["stack"] = bs, ss, bst+sst
			return "load-status-differs", detail, false
		}
		return "", detail, true
	}
	ms := &refpvm.State{PC: c.PC, Gas: c.Gas, Regs: c.Regs, Mem: refpvm.BuildMem(c.Pages)}
	pcB, pcS := c.PC, c.PC
	for seg := 0; seg < 4; seg++ {
		var me refpvm.Exit
		for n := 0; n < 5000; n++ {
			me = mp.Step(ms)
			if me.Kind != refpvm.Continue {
				break
			}
		}
		if me.Kind == refpvm.Continue || me.Kind == refpvm.Unmodelled || ms.Wrapped || ms.JumpBeyond || ms.OffMask {
			return "", detail, true
		}
		be, bpc, bp, bstk := bv.run(pcB)
		se, spc, sp, sstk := sv.run(pcS)
		detail["segment"] = seg
		detail["model_exit"] = fmt.Sprintf("%s arg=%d pc=%d gas=%d", me.Kind, me.Arg, ms.PC, ms.Gas)
		detail["block_exit"] = fmt.Sprintf("%s pc=%d gas=%d panic=%q", be.String(), bpc, bv.interp.Gas, bp)
		detail["step_exit"] = fmt.Sprintf("%s pc=%d gas=%d panic=%q", se.String(), spc, sv.interp.Gas, sp)
		label := func() string {
			db := vCompare(mp, me, ms, be, bpc, bv, "block")
			ds := ""
			if sp != "" {
				ds = "go panic"
			} else {
				ds = vCompare(mp, me, ms, se, spc, sv, "step")
			}
			detail["block_vs_model"], detail["step_vs_model"] = db, ds
			switch {
			case db == "" && ds != "":
				return "step engine deviates from the model"
			case db != "" && ds == "":
				return "block engine deviates from the model"
			case db != "" && ds != "":
				return "both deviate from the model"
			}
			return "model agrees with both under its conventions"
		}
		if bp != "" || sp != "" {
			if bp != "" && sp != "" {
				return "", detail, true // both crash: C03's business
			}
			detail["stack"] = bstk + sstk
			detail["label"] = label()
			return "one-engine-go-panics", detail, false
		}
		d := ""
		switch {
		case vKind(be) != vKind(se):
			d = fmt.Sprintf("exit %s vs %s", vKind(be), vKind(se))
		case bv.interp.Gas != sv.interp.Gas:
			d = fmt.Sprintf("gas %d vs %d", bv.interp.Gas, sv.interp.Gas)
		case bv.interp.Registers != sv.interp.Registers && !(vKind(be) == refpvm.Panic):
			d = "registers"
		case vKind(be) == refpvm.Host && uint64(be)&(1<<56-1) != uint64(se)&(1<<56-1):
			d = "host-call id"
		case vKind(be) == refpvm.Fault && be.GetPageFaultAddress() != se.GetPageFaultAddress():
			d = fmt.Sprintf("fault address %#x vs %#x", be.GetPageFaultAddress(), se.GetPageFaultAddress())
		}
		if d == "" {
			// next program counter, normalised: host call — block reports the fall-through pc, step the ecalli pc
			switch vKind(be) {
			case refpvm.Host:
				if uint32(bpc) != mp.NextPC(uint32(spc)) {
					d = fmt.Sprintf("resume pc %d vs %d(+skip)", bpc, spc)
				}
			case refpvm.OOG, refpvm.Fault:
				if bpc != spc {
					d = fmt.Sprintf("next pc %d vs %d at %s", bpc, spc, vKind(be))
				}
			}
		}
		if d == "" {
			// memory
			for k, p := range bv.interp.Memory.Pages {
				q := sv.interp.Memory.Pages[k]
				if q == nil || q.Access != p.Access || string(q.Value) != string(p.Value) {
					d = fmt.Sprintf("memory page %d", k)
					break
				}
			}
			if d == "" && len(bv.interp.Memory.Pages) != len(sv.interp.Memory.Pages) {
				d = "memory page set"
			}
		}
		if d != "" {
			detail["difference(block vs step)"] = d
			detail["label"] = label()
			return "engines-differ: " + strings.SplitN(d, " ", 2)[0], detail, false
		}
		if vKind(be) != refpvm.Host {
			return "", detail, false
		}
		for _, v := range []*vImpl{bv, sv} {
			v.interp.Registers[7] = me.Arg*3 + 1
			v.interp.Gas -= 10
		}
		ms.Regs[7] = me.Arg*3 + 1
		ms.Gas -= 10
		ms.PC = mp.NextPC(ms.PC)
		pcB = uint32(bpc)
		pcS = mp.NextPC(uint32(spc))
	}
	return "", detail, false
}

func TestVerifC02(t *testing.T) {
	h := vh.Open(t, "C02")
	defer h.Done()
	run := func(stratum string, i int, c refpvm.Case) {
		class, d, skipped := vEngineDiff(c)
		if skipped {
			h.Inc("not_judged")
			return
		}
		h.Inc("compared_" + stratum)
		if class != "" {
			h.Viol(stratum, i, "", class, d)
		}
	}
	n := h.N(20000, 500000)
	for i := 0; i < n; i++ {
		if !h.Mine("compiler", i) {
			continue
		}
		h.CaseLight("compiler", i)
		c := refpvm.GenCompilerLike(h.Rng("compiler", i), vHostIDs)
		run("compiler", i, c)
		h.Distinct(c.Blob, c.Gas)
		if i < 2 {
			h.Sample(map[string]any{"stratum": "compiler", "blob": vh.Hex(c.Blob), "gas": c.Gas})
		}
	}
	total := 256 * len(vGridBytes) * len(vGridBytes) * 25 * 3
	stride := 1
	if !h.Thorough() {
		stride = total / 150000
	}
	for gi := 0; gi < total; gi += stride {
		if !h.Mine("grid", gi/stride) {
			continue
		}
		h.CaseLight("grid", gi/stride)
		x := gi
		pos := x % 3
		x /= 3
		skip := x % 25
		x /= 25
		b2 := vGridBytes[x%len(vGridBytes)]
		x /= len(vGridBytes)
		b1 := vGridBytes[x%len(vGridBytes)]
		x /= len(vGridBytes)
		run("grid", gi/stride, vGridCase(h.Rng("grid", gi), byte(x), b1, b2, skip, pos))
		h.Distinct("g", gi)
	}
	nh := h.N(60000, 1500000)
	for i := 0; i < nh; i++ {
		if !h.Mine("hostile", i) {
			continue
		}
		h.CaseLight("hostile", i)
		c := vHostileCase(h.Rng("hostile", i))
		run("hostile", i, c)
		h.Distinct(c.Blob, c.PC)
	}
}
