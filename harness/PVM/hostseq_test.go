package PVM

// Host-call sequence driver shared by C04 (charges), C07 (frame discipline), C08 (token ledger) and
// C09 (footprint accounting). One generated context, 1..40 calls through the REAL omega tables,
// monitors evaluated after every call.

import (
	"encoding/binary"
	"fmt"
	"math/big"
	"sort"

	"github.com/New-JAMneration/JAM-Protocol/internal/types"
	"github.com/New-JAMneration/JAM-Protocol/internal/utilities/hash"
	"github.com/New-JAMneration/JAM-Protocol/internal/zzverif/refpvm"
	"github.com/New-JAMneration/JAM-Protocol/internal/zzverif/vh"
)

type vRange struct{ addr, n uint64 }

type vCallSpec struct {
	op         OperationType
	table      Omegas
	req        []vRange // input ranges that must be readable (else PANIC)
	dst        *vRange  // the only guest range the call may write
	dstWrite   bool     // dst must be writable as a precondition even if nothing is written (invoke)
	twoRegs    bool     // may change ω8 as well
	noRegs     bool     // may change no register (log)
	extraPanic bool     // other specified panic conditions may apply (decode errors, l >= 2^32)
}

// dst0 returns the (saturating) end of the destination range.
func (sp vCallSpec) dst0() uint64 {
	if sp.dst == nil {
		return 0
	}
	if sp.dst.addr+sp.dst.n < sp.dst.addr {
		return ^uint64(0)
	}
	return sp.dst.addr + sp.dst.n
}

var vErrCodes = map[uint64]string{NONE: "NONE", WHAT: "WHAT", OOB: "OOB", WHO: "WHO", FULL: "FULL", CORE: "CORE", CASH: "CASH", LOW: "LOW", HUH: "HUH"}

func (c *vHC) anyService(r vh.R) uint64 {
	switch r.IntN(6) {
	case 0:
		return ^uint64(0)
	case 1:
		return uint64(c.caller)
	case 2:
		if len(c.others) > 0 {
			return uint64(c.others[r.IntN(len(c.others))])
		}
		return uint64(c.caller)
	case 3:
		return uint64(90000 + r.IntN(10)) // does not exist
	case 4:
		if r.Bool() {
			// a 64-bit value whose low half is the id of an existing service: names no service (N_S is 32 bits wide)
			low := uint64(c.caller)
			if len(c.others) > 0 && r.Bool() {
				low = uint64(c.others[r.IntN(len(c.others))])
			}
			return low | uint64(1+r.IntN(0xFFFFFFFE))<<32
		}
		return r.U64()
	default:
		return uint64(c.caller)
	}
}

func (c *vHC) hashAddr(r vh.R) (uint64, [32]byte) {
	hh := c.hashes[r.IntN(len(c.hashes))]
	if r.IntN(5) == 0 {
		return c.genAddr(r, 32), hh // possibly unreadable
	}
	return c.place(r, hh[:]), hh
}

// gen sets the registers for one call of op and returns its frame specification.
func (c *vHC) gen(r vh.R, op OperationType) vCallSpec {
	for i := range c.regs {
		c.regs[i] = r.U64() // registers not used by the call hold garbage
	}
	sp := vCallSpec{op: op, table: AccumulateOmegas}
	if op >= HistoricalLookupOp && op <= ExpungeOp {
		sp.table = RefineOmegas
	}
	w := &c.regs
	lenOrBig := func(max int) uint64 {
		switch r.IntN(6) {
		case 0:
			return 0
		case 1:
			return r.U64()
		case 2:
			return 1 << 32
		default:
			return uint64(r.IntN(max + 1))
		}
	}
	outRange := func(l uint64) uint64 { // destination start: mostly writable, sometimes RO / unmapped / straddling
		if r.IntN(4) == 0 {
			return c.genAddr(r, min(l, 64))
		}
		if l >= vRWN*ZP {
			return vRW0
		}
		return vRW0 + uint64(r.IntN(int(vRWN*ZP-l)))
	}
	switch op {
	case GasOp, CheckpointOp:
	case FetchOp:
		w[9] = lenOrBig(300)
		w[7], w[8], w[10], w[11], w[12] = outRange(w[9]), lenOrBig(40), uint64(r.IntN(18)), uint64(r.IntN(3)), uint64(r.IntN(3))
		sp.dst = &vRange{w[7], w[9]}
	case LookupOp, HistoricalLookupOp:
		a, _ := c.hashAddr(r)
		w[11] = lenOrBig(60)
		w[7], w[8], w[9], w[10] = c.anyService(r), a, outRange(w[11]), lenOrBig(10)
		sp.req, sp.dst = []vRange{{a, 32}}, &vRange{w[9], w[11]}
	case ReadOp:
		k := c.keys[r.IntN(len(c.keys))]
		ko := c.place(r, k)
		if r.IntN(6) == 0 {
			ko = c.genAddr(r, uint64(len(k)))
		}
		w[12] = lenOrBig(60)
		w[7], w[8], w[9], w[10], w[11] = c.anyService(r), ko, uint64(len(k)), outRange(w[12]), lenOrBig(10)
		sp.req, sp.dst = []vRange{{ko, uint64(len(k))}}, &vRange{w[10], w[12]}
	case WriteOp:
		k := c.keys[r.IntN(len(c.keys))]
		if r.IntN(3) == 0 {
			k = r.Bytes(1 + r.IntN(8))
			c.keys = append(c.keys, k)
		}
		ko := c.place(r, k)
		if r.IntN(8) == 0 {
			ko = c.genAddr(r, uint64(len(k)))
		}
		v := r.Bytes(r.IntN(80))
		if r.IntN(6) == 0 {
			v = r.Bytes(2000 + r.IntN(3000)) // may exceed the balance: FULL
		}
		vo := c.place(r, v)
		if r.IntN(8) == 0 {
			vo = c.genAddr(r, uint64(len(v)))
		}
		w[7], w[8], w[9], w[10] = ko, uint64(len(k)), vo, uint64(len(v))
		sp.req = []vRange{{ko, uint64(len(k))}}
		if len(v) > 0 {
			sp.req = append(sp.req, vRange{vo, uint64(len(v))})
		}
	case InfoOp:
		w[10] = lenOrBig(120)
		w[7], w[8], w[9] = c.anyService(r), outRange(w[10]), lenOrBig(20)
		sp.dst = &vRange{w[8], w[10]}
	case ExportOp:
		w[8] = lenOrBig(5000)
		w[7] = outRange(min(w[8], 4104))
		sp.req = []vRange{{w[7], min(w[8], 4104)}}
	case MachineOp:
		blob := refpvm.GenCompilerLike(r, nil).Blob
		if r.IntN(4) == 0 {
			blob = r.Bytes(r.IntN(30))
		}
		if len(blob) > 3*ZP {
			blob = blob[:3*ZP]
		}
		po := c.place(r, blob)
		if r.IntN(8) == 0 {
			po = c.genAddr(r, uint64(len(blob)))
		}
		w[7], w[8], w[9] = po, uint64(len(blob)), uint64(r.IntN(20))
		sp.req = []vRange{{po, uint64(len(blob))}}
	case PeekOp:
		w[10] = lenOrBig(200)
		w[7], w[8], w[9] = uint64(r.IntN(3)), outRange(w[10]), uint64(16*ZP)+uint64(r.IntN(3*ZP))
		sp.dst = &vRange{w[8], w[10]}
	case PokeOp:
		n := lenOrBig(200)
		s := outRange(n)
		w[7], w[8], w[9], w[10] = uint64(r.IntN(3)), s, uint64(16*ZP)+uint64(r.IntN(3*ZP)), n
		sp.req = []vRange{{s, n}}
	case PagesOp:
		w[7], w[8], w[9], w[10] = uint64(r.IntN(3)), uint64(14+r.IntN(6)), uint64(r.IntN(4)), uint64(r.IntN(6))
		if r.IntN(8) == 0 {
			w[8], w[9] = r.U64(), r.U64()
		}
	case InvokeOp:
		o := outRange(112)
		pb := make([]byte, 112)
		binary.LittleEndian.PutUint64(pb, uint64(r.IntN(60)))
		for k := 0; k < 13; k++ {
			binary.LittleEndian.PutUint64(pb[8+8*k:], r.U64())
		}
		c.poke(o, pb)
		w[7], w[8] = uint64(r.IntN(3)), o
		sp.dst, sp.dstWrite, sp.twoRegs = &vRange{o, 112}, true, true
	case ExpungeOp:
		w[7] = uint64(r.IntN(3))
	case BlessOp:
		ab := make([]byte, 4*types.CoresCount)
		for i := 0; i < types.CoresCount; i++ {
			binary.LittleEndian.PutUint32(ab[4*i:], uint32(c.anyService(r)))
		}
		a := c.place(r, ab)
		n := uint64(r.IntN(4))
		ob := r.Bytes(int(12 * n))
		o := c.place(r, ob)
		if r.IntN(8) == 0 {
			a = c.genAddr(r, uint64(len(ab)))
		}
		if r.IntN(8) == 0 {
			o, n = c.genAddr(r, 12*n), lenOrBig(5)
		}
		w[7], w[8], w[9], w[10], w[11], w[12] = c.anyService(r), a, c.anyService(r), c.anyService(r), o, n
		sp.req = []vRange{{a, uint64(len(ab))}}
		if n < 1<<60 {
			sp.req = append(sp.req, vRange{o, 12 * n})
		}
		sp.extraPanic = true
	case AssignOp:
		q := r.Bytes(32 * types.AuthQueueSize)
		o := c.place(r, q)
		if r.IntN(8) == 0 {
			o = c.genAddr(r, uint64(len(q)))
		}
		w[7], w[8], w[9] = uint64(r.IntN(types.CoresCount+2)), o, c.anyService(r)
		if r.IntN(10) == 0 {
			w[7] = r.U64()
		}
		sp.req = []vRange{{o, uint64(len(q))}}
		sp.extraPanic = true
	case DesignateOp:
		q := r.Bytes(336 * types.ValidatorsCount)
		o := c.place(r, q)
		if r.IntN(8) == 0 {
			o = c.genAddr(r, uint64(len(q)))
		}
		w[7] = o
		sp.req = []vRange{{o, uint64(len(q))}}
		sp.extraPanic = true
	case NewOp:
		var ch [32]byte
		copy(ch[:], r.Bytes(32))
		o := c.place(r, ch[:])
		if r.IntN(8) == 0 {
			o = c.genAddr(r, 32)
		}
		bal := uint64(c.add.ResultContextX.PartialState.ServiceAccounts[c.caller].ServiceInfo.Balance)
		var l uint64
		switch r.IntN(7) {
		case 0:
			l = 1<<32 - 1 - uint64(r.IntN(3))
		case 1:
			l = 1<<32 + uint64(r.IntN(3)) // >= 2^32: panic
		case 2:
			l = bal // around what the balance could pay
		case 3:
			l = bal - min(bal, uint64(150+r.IntN(300)))
		default:
			l = uint64(r.IntN(200))
		}
		f := uint64(0)
		if r.IntN(4) == 0 {
			f = uint64(r.IntN(100))
		}
		w[7], w[8], w[9], w[10], w[11], w[12] = o, l, uint64(r.IntN(100)), uint64(r.IntN(100)), f, uint64(r.IntN(400))
		if c.caller == c.add.ResultContextX.PartialState.CreateAcct && r.Bool() {
			// the registrar asks for a reserved id that is already taken (FULL, nothing charged) — or, half of the time, a free one
			var low []types.ServiceID
			for id := range c.add.ResultContextX.PartialState.ServiceAccounts {
				if id < 65536 {
					low = append(low, id)
				}
			}
			sort.Slice(low, func(i, j int) bool { return low[i] < low[j] })
			if len(low) > 0 {
				w[12] = uint64(low[r.IntN(len(low))])
			}
		}
		sp.req = []vRange{{o, 32}}
		sp.extraPanic = true
	case UpgradeOp:
		o, _ := c.hashAddr(r)
		w[7], w[8], w[9] = o, uint64(r.IntN(1000)), uint64(r.IntN(1000))
		sp.req = []vRange{{o, 32}}
	case TransferOp:
		memo := r.Bytes(128)
		o := c.place(r, memo)
		if r.IntN(8) == 0 {
			o = c.genAddr(r, 128)
		}
		bal := uint64(c.add.ResultContextX.PartialState.ServiceAccounts[c.caller].ServiceInfo.Balance)
		var amt uint64
		switch r.IntN(7) {
		case 0:
			amt = bal
		case 1:
			amt = bal + 1 + uint64(r.IntN(3))
		case 2:
			amt = ^uint64(0) - uint64(r.IntN(3))
		case 3:
			amt = bal - min(bal, uint64(100+r.IntN(400)))
		default:
			amt = uint64(r.IntN(300))
		}
		l := uint64(r.IntN(60))
		switch r.IntN(10) {
		case 0, 1:
			l = uint64(c.gas) - min(uint64(c.gas), uint64(8+r.IntN(6))) // around the remaining gas
		case 2:
			l = r.U64() // boundary pool: 2^31, 2^32, 2^63-1, 2^63, 2^64-1 … (a 64-bit register value)
		case 3:
			l = 1<<63 + uint64(r.IntN(4000)) - 2000 // around the sign bit of a 64-bit gas counter
		}
		w[7], w[8], w[9], w[10] = c.anyService(r), amt, l, o
		if c.transferBias && r.IntN(5) != 0 {
			w[8] = uint64(r.IntN(20))
			w[7] = uint64(c.caller)
			if len(c.others) > 0 && r.Bool() {
				w[7] = uint64(c.others[r.IntN(len(c.others))])
			}
			if r.IntN(3) == 0 {
				w[9] = max(l, uint64(c.add.ResultContextX.PartialState.ServiceAccounts[types.ServiceID(w[7])].ServiceInfo.MinMemoGas))
			}
		}
		sp.req = []vRange{{o, 128}}
	case EjectOp:
		o, _ := c.hashAddr(r)
		w[7], w[8] = c.anyService(r), o
		sp.req = []vRange{{o, 32}}
	case QueryOp, SolicitOp, ForgetOp:
		o, hh := c.hashAddr(r)
		z := uint64(r.IntN(40))
		// aim z at an existing lookup entry of that hash
		if a, ok := c.add.ResultContextX.PartialState.ServiceAccounts[c.caller]; ok && r.IntN(4) != 0 {
			for k := range a.LookupDict {
				if k.Hash == types.OpaqueHash(hh) {
					z = uint64(k.Length)
				}
			}
			for sk, pl := range c.planted {
				_ = sk
				if pl.lookup && pl.svc == c.caller && r.IntN(3) == 0 {
					z = uint64(pl.z)
				}
			}
		}
		if op == SolicitOp && r.IntN(6) == 0 {
			z = 1<<32 - 1 - uint64(r.IntN(3)) // a huge declared length: FULL
		}
		if op != SolicitOp && r.IntN(8) == 0 {
			z |= uint64(1+r.IntN(0xFFFFFFFE)) << 32 // a length outside N_L whose low half is (often) the length of an existing entry: no such key
		}
		w[7], w[8] = o, z
		sp.req = []vRange{{o, 32}}
		sp.twoRegs = op == QueryOp
	case YieldOp:
		o, _ := c.hashAddr(r)
		w[7] = o
		sp.req = []vRange{{o, 32}}
	case ProvideOp:
		blob := r.Bytes(1 + r.IntN(30))
		// sometimes a blob whose hash is solicited: plant the solicitation first (directly in X)
		if r.IntN(2) == 0 {
			if a, ok := c.add.ResultContextX.PartialState.ServiceAccounts[c.caller]; ok {
				k := types.LookupMetaMapkey{Hash: hash.Blake2bHash(blob), Length: types.U32(len(blob))}
				if _, dup := a.LookupDict[k]; !dup {
					a.LookupDict[k] = types.TimeSlotSet{}
					a.ServiceInfo.Items += 2
					a.ServiceInfo.Bytes += types.U64(81 + len(blob))
					a.ServiceInfo.Balance += types.U64(20 + 81 + len(blob))
					c.add.ResultContextX.PartialState.ServiceAccounts[c.caller] = a
					*c.add.GeneralArgs.ServiceAccount = a
				}
			}
		}
		o := c.place(r, blob)
		if r.IntN(8) == 0 {
			o = c.genAddr(r, uint64(len(blob)))
		}
		w[7], w[8], w[9] = c.anyService(r), o, uint64(len(blob))
		sp.req = []vRange{{o, uint64(len(blob))}}
	case LogOp:
		w[7], w[8], w[9], w[10], w[11] = uint64(r.IntN(7)), c.genAddr(r, 8), uint64(r.IntN(12)), c.genAddr(r, 16), uint64(r.IntN(20))
		sp.noRegs = true
	}
	return sp
}

var vSeqOps = []OperationType{GasOp, FetchOp, LookupOp, ReadOp, WriteOp, WriteOp, InfoOp, HistoricalLookupOp, ExportOp, MachineOp, PeekOp, PokeOp, PagesOp,
	InvokeOp, ExpungeOp, BlessOp, AssignOp, DesignateOp, CheckpointOp, NewOp, NewOp, UpgradeOp, TransferOp, TransferOp, EjectOp, QueryOp, SolicitOp, SolicitOp,
	ForgetOp, ForgetOp, YieldOp, ProvideOp, LogOp}

type vMonitors struct{ frame, ledger, footprint, charge, transferBias, alias bool }

func bigU(x types.U64) *big.Int { return vBig().SetUint64(uint64(x)) }

func (c *vHC) ledger() (*big.Int, map[types.ServiceID]uint64) {
	sum := vBig()
	bal := map[types.ServiceID]uint64{}
	for id, a := range c.add.ResultContextX.PartialState.ServiceAccounts {
		sum.Add(sum, bigU(a.ServiceInfo.Balance))
		bal[id] = uint64(a.ServiceInfo.Balance)
	}
	for _, t := range c.add.ResultContextX.DeferredTransfers {
		sum.Add(sum, bigU(t.Balance))
	}
	return sum, bal
}

// derived returns items/octets recomputed from the dictionaries and the planted raw-pool entries
// that are still in the pool.
func (c *vHC) derived(id types.ServiceID) (uint64, *big.Int) {
	a := c.add.ResultContextX.PartialState.ServiceAccounts[id]
	items := uint64(2*len(a.LookupDict) + len(a.StorageDict))
	oct := vBig()
	for k := range a.LookupDict {
		oct.Add(oct, big.NewInt(81+int64(k.Length)))
	}
	for k, v := range a.StorageDict {
		oct.Add(oct, big.NewInt(34+int64(len(k))+int64(len(v))))
	}
	if c.add.ResultContextX.StorageKeyVal != nil {
		for _, e := range *c.add.ResultContextX.StorageKeyVal {
			pl, ok := c.planted[e.Key]
			if !ok || pl.svc != id {
				continue
			}
			if pl.lookup {
				items += 2
				oct.Add(oct, big.NewInt(81+int64(pl.z)))
			} else {
				items++
				oct.Add(oct, big.NewInt(34+int64(pl.klen)+int64(len(e.Value))))
			}
		}
	}
	return items, oct
}

// vRunHostSequence drives one context through n calls and evaluates the enabled monitors.
func vRunHostSequence(h *vh.H, stratum string, ci int, r vh.R, mon vMonitors) {
	types.SetTinyMode()
	c := vNewHC(r)
	c.transferBias = mon.transferBias
	n := 1 + r.IntN(40)
	for step := 0; step < n; step++ {
		op := vSeqOps[r.IntN(len(vSeqOps))]
		if c.transferBias && r.Bool() {
			op = TransferOp
		}
		if r.IntN(40) == 0 {
			c.gas = Gas(r.IntN(12)) // too little gas for the charge
		}
		sp := c.gen(r, op)
		sum0, bal0 := c.ledger()
		callerBefore := c.add.ResultContextX.PartialState.ServiceAccounts[c.caller]
		o := c.call(sp.table, op)
		d := map[string]any{"step": step, "op": int(op), "name": opName(op), "regs_in": fmt.Sprintf("%x", o.regs0), "gas_in": o.gas0, "exit": o.exit.String(), "w7_out": fmt.Sprintf("%#x", o.regs1[7])}
		if name, ok := vErrCodes[o.regs1[7]]; ok {
			d["w7_out"] = name
		}
		viol := func(class, why string) {
			d["why"] = why
			h.Viol(stratum, ci, "", class, d)
		}
		h.Inc("calls")
		h.Inc("op_" + opName(op))
		if o.goPanic != "" {
			d["panic"], d["stack"] = o.goPanic, o.goStack
			viol("host-call-go-panic", o.goPanic)
			return
		}
		kind := "ok"
		switch {
		case o.exit.GetReasonType() == PANIC:
			kind = "panic"
		case o.exit.GetReasonType() == OUT_OF_GAS:
			kind = "oog"
		case o.exit != ExitContinue:
			kind = "other:" + o.exit.String()
		default:
			if _, isErr := vErrCodes[o.regs1[7]]; isErr && !(op == WriteOp && o.regs1[7] == NONE) && !sp.noRegs {
				kind = "error"
			}
		}
		h.Inc(fmt.Sprintf("outcome_%s_%s", opName(op), kind))

		xSame := vProjDiff(o.projX0, o.projX1) == "[]"
		ySame := vProjDiff(o.projY0, o.projY1) == "[]"

		// ---- C04: charges ------------------------------------------------------------------------
		if mon.charge || mon.frame {
			switch {
			case o.gas0 < 10:
				if kind != "oog" {
					viol("charge: call not out-of-gas although gas < 10", fmt.Sprint(o.gas0))
				} else if o.regs1 != o.regs0 || len(o.memChanged) > 0 || !xSame || !ySame {
					viol("charge: out-of-gas call had effects", "")
				}
				return
			case op == TransferOp && kind == "ok":
				// exact unsigned arithmetic: l is a 64-bit register value and may exceed every gas counter
				if l := o.regs0[9]; l > uint64(o.gas0-10) {
					viol("charge: transfer succeeded although its gas limit l exceeds the gas left after the base charge", fmt.Sprintf("gas %d, l=%d", o.gas0, l))
				} else if o.gas1 < 0 || uint64(o.gas0-10)-l != uint64(o.gas1) {
					viol("charge: successful transfer must cost 10 + l", fmt.Sprintf("gas %d -> %d, l=%d", o.gas0, o.gas1, l))
				}
			case op == TransferOp && kind == "oog":
				h.Inc("transfer_calls_oog")
				// the transfer's gas limit exceeds what is left after the base charge
				if uint64(o.gas0-10) >= o.regs0[9] {
					viol("charge: transfer out-of-gas although gas >= 10 + l", fmt.Sprintf("gas %d l=%d", o.gas0, o.regs0[9]))
				}
				return
			case kind == "oog":
				viol("charge: out-of-gas although gas >= 10", fmt.Sprint(o.gas0))
				return
			default:
				if o.gas0-o.gas1 != 10 {
					viol("charge: host call must cost exactly 10", fmt.Sprintf("cost %d", o.gas0-o.gas1))
				}
			}
			if op == TransferOp {
				h.Inc("transfer_calls_" + kind)
				if o.regs0[9] >= 1<<63 {
					h.Inc("transfer_calls_with_l_ge_2^63")
				}
			}
		}

		// ---- C07: frame ----------------------------------------------------------------------------
		if mon.frame {
			for i := range o.regs0 {
				if o.regs0[i] == o.regs1[i] || i == 7 && !sp.noRegs || (i == 8 && sp.twoRegs) {
					continue
				}
				if kind == "panic" {
					continue // registers are discarded after a panic (U6)
				}
				viol("frame: register outside the call's result registers changed", fmt.Sprintf("ω%d %#x -> %#x", i, o.regs0[i], o.regs1[i]))
				break
			}
			reqOK := true
			for _, q := range sp.req {
				if !c.readableBefore(o.mem0, q.addr, q.n) {
					reqOK = false
				}
			}
			if !reqOK && op != LogOp && kind != "panic" {
				viol("frame: required input range unreadable but the call did not panic", fmt.Sprint(sp.req))
			}
			if sp.dstWrite && sp.dst != nil && !c.writableBefore(o.mem0, sp.dst.addr, sp.dst.n) && kind != "panic" {
				viol("frame: destination not writable but the call did not panic", "")
			}
			if kind == "panic" {
				if len(o.memChanged) > 0 {
					viol("frame: panicking call changed guest memory", fmt.Sprint(o.memChanged))
				}
				if !xSame || !ySame || o.machines0 != o.machines1 {
					viol("frame: panicking call changed the context", vProjDiff(o.projX0, o.projX1)+vProjDiff(o.projY0, o.projY1))
				}
				if reqOK && !sp.extraPanic && sp.dst == nil {
					viol("frame: panic although every required range is readable", fmt.Sprint(sp.req))
				}
				if sp.dstWrite && c.writableBefore(o.mem0, sp.dst.addr, sp.dst.n) {
					viol("frame: panic although the destination is writable", "")
				}
			}
			for _, ch := range o.memChanged {
				hi := sp.dst0()
				if sp.dst == nil || ch[0] < sp.dst.addr || ch[1] > hi {
					viol("frame: guest memory changed outside the call's destination range", fmt.Sprintf("changed %v, destination %v", ch, sp.dst))
					break
				}
			}
			if kind == "error" && (!xSame || !ySame || o.machines0 != o.machines1) {
				viol("frame: call returned an error code but changed the context", vProjDiff(o.projX0, o.projX1)+vProjDiff(o.projY0, o.projY1)+" machines:"+o.machines0+"->"+o.machines1)
			}
			if op != CheckpointOp && !ySame {
				viol("frame: the checkpoint context changed outside checkpoint", vProjDiff(o.projY0, o.projY1))
			}
			if op == CheckpointOp && kind == "ok" && vProjDiff(o.projX1, o.projY1) != "[]" {
				viol("frame: checkpoint copy differs from the live context", vProjDiff(o.projX1, o.projY1))
			}
		}

		// ---- C07 / C31: a register value outside N_S names no service -------------------------------------------------
		// (2^64-1 means "the caller itself" where the call defines it so). What the specification assigns to such a call is the
		// "no such service" answer: NONE without a memory write for the reading calls, WHO without a state change for the others.
		if mon.frame && kind != "panic" && kind != "oog" && o.regs0[7] >= 1<<32 {
			s7, want := o.regs0[7], uint64(0)
			switch op {
			case LookupOp, HistoricalLookupOp, ReadOp, InfoOp:
				if s7 != ^uint64(0) {
					want = NONE
				}
			case ProvideOp:
				if s7 != ^uint64(0) {
					want = WHO
				}
			case EjectOp, TransferOp:
				want = WHO
			}
			if want != 0 {
				h.Inc("calls_naming_a_service_outside_the_32_bit_range")
				if o.regs1[7] != want {
					viol("service naming: a register value >= 2^32 was taken for a service (the call must answer "+vErrCodes[want]+")", fmt.Sprintf("ω7 = %#x", s7))
				} else if len(o.memChanged) > 0 || !xSame {
					viol("service naming: the call answered "+vErrCodes[want]+" but wrote memory or changed the context", fmt.Sprintf("ω7 = %#x", s7))
				}
			}
		}

		// the same for the length half of a lookup key (h, z): z >= 2^32 is the length of no entry
		if mon.frame && kind != "panic" && kind != "oog" && (op == QueryOp || op == ForgetOp) && o.regs0[8] >= 1<<32 {
			h.Inc("calls_with_a_lookup_length_outside_the_32_bit_range")
			want := map[OperationType]uint64{QueryOp: NONE, ForgetOp: HUH}[op]
			if o.regs1[7] != want || !xSame || (op == QueryOp && o.regs1[8] != 0) {
				viol("lookup key: a length >= 2^32 was taken for the length of an existing entry (the call must answer "+vErrCodes[want]+")", fmt.Sprintf("z = %#x", o.regs0[8]))
			}
		}

		// ---- aliasing probe (C07, C10): what a call keeps must be a copy of guest memory, not a view of it ---------
		// The guest (or a later host call) is free to overwrite the bytes a call was given: scramble every input range and
		// the destination range right after the call and require the context and the inner machines to stay as they were.
		if (mon.frame || mon.alias) && kind != "panic" && kind != "oog" {
			scrambled := false
			rgs := append([]vRange(nil), sp.req...)
			if sp.dst != nil {
				rgs = append(rgs, *sp.dst)
			}
			for _, rg := range rgs {
				if rg.addr >= 1<<32 {
					continue
				}
				for a := rg.addr; a < rg.addr+min(rg.n, 8192) && a < 1<<32; a++ {
					if pg, ok := c.mem.Pages[uint32(a/ZP)]; ok {
						pg.Value[a%ZP] ^= 0xA5
						scrambled = true
					}
				}
			}
			if scrambled {
				h.Inc("alias_probes")
				px, py, md := vProjectCtx(&c.add.ResultContextX), vProjectCtx(&c.add.ResultContextY), vMachinesDigest(c.add.IntegratedPVMMap)
				if dx, dy := vProjDiff(o.projX1, px), vProjDiff(o.projY1, py); dx != "[]" || dy != "[]" || md != o.machines1 {
					viol("aliasing: overwriting the guest bytes a host call was given changed the service state or an inner machine (the call kept a view of guest memory instead of a copy)",
						dx+dy+" machines:"+o.machines1+"->"+md)
					return
				}
			}
		}

		// ---- C08: ledger -----------------------------------------------------------------------------
		if mon.ledger && kind != "oog" {
			sum1, bal1 := c.ledger()
			if sum1.Cmp(sum0) > 0 {
				viol("ledger: balances + deferred transfers increased", fmt.Sprintf("%s -> %s", sum0, sum1))
			}
			callerAfter := c.add.ResultContextX.PartialState.ServiceAccounts[c.caller]
			thrCaller := vThreshold(uint64(callerBefore.ServiceInfo.Items), bigU(callerBefore.ServiceInfo.Bytes), uint64(callerBefore.ServiceInfo.DepositOffset))
			balB := bigU(callerBefore.ServiceInfo.Balance)
			changed := false
			for id, b := range bal1 {
				if b0, ok := bal0[id]; !ok || b0 != b {
					changed = true
				}
			}
			if len(bal0) != len(bal1) {
				changed = true
			}
			moving := op == NewOp || op == TransferOp || op == EjectOp
			if changed && !(moving && kind == "ok") {
				viol("ledger: a balance changed in a call that moves no tokens", fmt.Sprintf("%v -> %v", bal0, bal1))
			}
			switch {
			case op == NewOp && kind == "ok":
				at := vBig().SetUint64(100 + 20 + 81 + o.regs0[8])
				want := vBig().Sub(balB, at)
				if want.Sign() < 0 || want.Cmp(thrCaller) < 0 {
					viol("ledger: service created although the caller cannot afford its threshold balance", fmt.Sprintf("balance %s, new threshold %s, own threshold %s, balance after %d", balB, at, thrCaller, callerAfter.ServiceInfo.Balance))
				} else if bigU(callerAfter.ServiceInfo.Balance).Cmp(want) != 0 {
					viol("ledger: creator debited inexactly", fmt.Sprintf("want %s got %d", want, callerAfter.ServiceInfo.Balance))
				}
				if na, ok := c.add.ResultContextX.PartialState.ServiceAccounts[types.ServiceID(o.regs1[7])]; !ok || bigU(na.ServiceInfo.Balance).Cmp(at) != 0 {
					viol("ledger: new account not endowed with exactly its threshold balance", "")
				}
				if sum1.Cmp(sum0) != 0 {
					viol("ledger: creation changed the total", fmt.Sprintf("%s -> %s", sum0, sum1))
				}
				h.Inc("ledger_new_ok")
			case op == NewOp && o.regs1[7] == CASH && kind == "error":
				at := vBig().SetUint64(100 + 20 + 81 + o.regs0[8])
				if vBig().Sub(balB, at).Cmp(thrCaller) >= 0 {
					viol("ledger: CASH although the caller can afford the new service", fmt.Sprintf("balance %s, cost %s, threshold %s", balB, at, thrCaller))
				}
				h.Inc("ledger_new_cash")
			case op == TransferOp && kind == "ok":
				amt := vBig().SetUint64(o.regs0[8])
				want := vBig().Sub(balB, amt)
				if want.Sign() < 0 || want.Cmp(thrCaller) < 0 {
					viol("ledger: transfer accepted although it leaves the sender below its threshold", fmt.Sprintf("balance %s amount %s threshold %s", balB, amt, thrCaller))
				} else if bigU(callerAfter.ServiceInfo.Balance).Cmp(want) != 0 {
					viol("ledger: sender debited inexactly", "")
				}
				ts := c.add.ResultContextX.DeferredTransfers
				if len(ts) == 0 || uint64(ts[len(ts)-1].Balance) != o.regs0[8] || uint64(ts[len(ts)-1].ReceiverID) != o.regs0[7] || ts[len(ts)-1].SenderID != c.caller || uint64(ts[len(ts)-1].GasLimit) != o.regs0[9] {
					viol("ledger: deferred transfer not recorded as requested", "")
				}
				if sum1.Cmp(sum0) != 0 {
					viol("ledger: transfer changed the total", "")
				}
				h.Inc("ledger_transfer_ok")
			case op == TransferOp && o.regs1[7] == CASH && kind == "error":
				amt := vBig().SetUint64(o.regs0[8])
				if vBig().Sub(balB, amt).Cmp(thrCaller) >= 0 {
					viol("ledger: CASH although the sender can afford the transfer", "")
				}
				h.Inc("ledger_transfer_cash")
			case op == EjectOp && kind == "ok":
				dID := types.ServiceID(o.regs0[7])
				if _, still := bal1[dID]; still {
					viol("ledger: ejected account still present", "")
				}
				want := vBig().Add(balB, vBig().SetUint64(bal0[dID]))
				if want.BitLen() > 64 || bigU(callerAfter.ServiceInfo.Balance).Cmp(want) != 0 {
					viol("ledger: ejected balance not moved exactly to the caller", "")
				}
				h.Inc("ledger_eject_ok")
			}
		}

		// ---- C09: footprint ----------------------------------------------------------------------------
		if mon.footprint {
			for id, a := range c.add.ResultContextX.PartialState.ServiceAccounts {
				items, oct := c.derived(id)
				if uint64(a.ServiceInfo.Items) != items || bigU(a.ServiceInfo.Bytes).Cmp(oct) != 0 {
					viol("footprint: recorded items/octets differ from the account's actual entries",
						fmt.Sprintf("service %d: recorded (%d, %d), derived (%d, %s)", id, a.ServiceInfo.Items, a.ServiceInfo.Bytes, items, oct))
					return
				}
			}
			if (op == WriteOp || op == SolicitOp) && kind == "ok" {
				a := c.add.ResultContextX.PartialState.ServiceAccounts[c.caller]
				thr := vThreshold(uint64(a.ServiceInfo.Items), bigU(a.ServiceInfo.Bytes), uint64(a.ServiceInfo.DepositOffset))
				thr0 := vThreshold(uint64(callerBefore.ServiceInfo.Items), bigU(callerBefore.ServiceInfo.Bytes), uint64(callerBefore.ServiceInfo.DepositOffset))
				// judged only when the mutation RAISED the threshold (the statement's wording): an account that is already
				// below its threshold may still re-solicit or overwrite with an equal/smaller footprint
				if thr.Cmp(bigU(a.ServiceInfo.Balance)) > 0 && thr.Cmp(thr0) > 0 && !(op == WriteOp && o.regs0[10] == 0) {
					viol("footprint: mutation accepted although the new threshold exceeds the balance", fmt.Sprintf("threshold %s balance %d", thr, a.ServiceInfo.Balance))
				}
				h.Inc("footprint_mutations_ok")
			}
			if o.regs1[7] == FULL && kind == "error" {
				h.Inc("footprint_FULL")
			}
			if op == InfoOp && kind == "ok" && o.regs0[9] == 0 && o.regs0[10] >= 48 && c.writableBefore(o.mem0, o.regs0[8], 48) {
				id := types.ServiceID(o.regs0[7])
				if o.regs0[7] == ^uint64(0) {
					id = c.caller
				}
				if a, ok := c.add.ResultContextX.PartialState.ServiceAccounts[id]; ok {
					got := binary.LittleEndian.Uint64(c.mem.Read(o.regs0[8]+40, 8))
					want := vThreshold(uint64(a.ServiceInfo.Items), bigU(a.ServiceInfo.Bytes), uint64(a.ServiceInfo.DepositOffset))
					if want.IsUint64() && want.Uint64() != got {
						viol("footprint: info reports another threshold balance", fmt.Sprintf("reported %d, formula %s", got, want))
					}
					h.Inc("footprint_info_checked")
				}
			}
		}
		if kind == "panic" || kind == "oog" {
			return // the invocation ends here
		}
	}
}

func (c *vHC) readableBefore(mem0 map[uint32][]byte, addr, n uint64) bool {
	return isReadableModel(c.mem, addr, n, false) // page set and access never change in these calls
}
func (c *vHC) writableBefore(mem0 map[uint32][]byte, addr, n uint64) bool {
	return isReadableModel(c.mem, addr, n, true)
}

func opName(op OperationType) string {
	if int(op) < len(hostCallName) && hostCallName[op] != "" {
		return hostCallName[op]
	}
	return fmt.Sprint(int(op))
}
