package PVM

import (
	"fmt"
	"strings"
	"testing"

	"github.com/New-JAMneration/JAM-Protocol/internal/zzverif/refpvm"
	"github.com/New-JAMneration/JAM-Protocol/internal/zzverif/vh"
)

var vHostIDs = []uint64{0, 1, 2, 5, 17, 26, 27, 99, 100, 101, 127, 128, 200, 255}

// vRunDifferential runs one case on the model and on one engine, segment by segment across host
// calls, and reports the first divergence as (class, detail) — class "" = agreement.
// It also returns coverage facts of the model run.
type vCov struct {
	ops      map[byte]bool
	exits    map[refpvm.ExitKind]int
	steps    int
	segments int
}

func vRunDifferential(c refpvm.Case, engine string, cov *vCov) (class string, detail map[string]any, unmodelled bool) {
	detail = vCaseDetail(c)
	detail["engine"] = engine
	mp, mok := refpvm.Deblob(c.Blob)
	iv, status, stack := vNewImpl(c.Blob, c.Gas, c.Regs, c.Pages, engine)
	if strings.HasPrefix(status, "go-panic") {
		detail["panic"], detail["stack"] = status, stack
		return "go-panic-in-deblob", detail, false
	}
	if !mok {
		if status == "" {
			return "deblob-accepts-malformed-blob", detail, false
		}
		return "", detail, false
	}
	if status != "" {
		return "deblob-rejects-valid-blob", detail, false
	}
	if mp.Overlong {
		return "", detail, true
	}
	ms := &refpvm.State{PC: c.PC, Gas: c.Gas, Regs: c.Regs, Mem: refpvm.BuildMem(c.Pages)}
	pc := c.PC
	for seg := 0; seg < 4; seg++ {
		// model segment with per-step coverage
		var me refpvm.Exit
		n := 0
		var trace []string
		for {
			if cov != nil && int(ms.PC) < len(mp.Code) {
				cov.ops[mp.Code[ms.PC]] = true
			}
			if int(ms.PC) < len(mp.Code) {
				trace = append(trace, fmt.Sprintf("%d:%d/%d", ms.PC, mp.Code[ms.PC], mp.Skip(ms.PC)))
			} else {
				trace = append(trace, fmt.Sprintf("%d:beyond", ms.PC))
			}
			if len(trace) > 16 {
				trace = trace[1:]
			}
			me = mp.Step(ms)
			n++
			if me.Kind != refpvm.Continue || n > 5000 {
				break
			}
		}
		if me.Kind == refpvm.Unmodelled || me.Kind == refpvm.Continue || ms.Wrapped || ms.JumpBeyond || ms.OffMask {
			return "", detail, true
		}
		detail["model_selfjump"] = ms.SelfJump
		if cov != nil {
			cov.steps += n
			cov.exits[me.Kind]++
			cov.segments++
		}
		ie, ipc, gp, st := iv.run(pc)
		detail["segment"] = seg
		detail["model_trace_pc:op/skip"] = strings.Join(trace, " ")
		detail["model_exit"] = fmt.Sprintf("%s arg=%d pc=%d gas=%d", me.Kind, me.Arg, ms.PC, ms.Gas)
		if gp != "" {
			detail["panic"], detail["stack"] = gp, st
			return "go-panic-in-engine", detail, false
		}
		detail["impl_exit"] = fmt.Sprintf("%s pc=%d gas=%d", ie.String(), ipc, iv.interp.Gas)
		if d := vCompare(mp, me, ms, ie, ipc, iv, engine); d != "" {
			detail["divergence"] = d
			if seg == 0 {
				detail["located"] = vLocate(c, engine)
			}
			return "diverges: " + strings.SplitN(d, " ", 2)[0], detail, false
		}
		if me.Kind != refpvm.Host {
			return "", detail, false
		}
		// identical host effect on both sides, then resume
		ms.Regs[7] = me.Arg*3 + 1
		iv.interp.Registers[7] = me.Arg*3 + 1
		ms.Gas -= 10
		iv.interp.Gas -= 10
		ms.PC = mp.NextPC(ms.PC)
		pc = ms.PC
	}
	return "", detail, false
}

// vLocate finds the smallest gas limit at which model and engine already disagree (segment 0 only)
// and names the instruction executed by that step; used to explain a divergence.
func vLocate(c refpvm.Case, engine string) string {
	mp, ok := refpvm.Deblob(c.Blob)
	if !ok {
		return ""
	}
	for g := int64(0); g <= min(c.Gas, 400); g++ {
		cc := c
		cc.Gas = g
		ms := &refpvm.State{PC: c.PC, Gas: g, Regs: c.Regs, Mem: refpvm.BuildMem(c.Pages)}
		lastPC := ms.PC
		var me refpvm.Exit
		for n := 0; n < 5000; n++ {
			lastPC = ms.PC
			me = mp.Step(ms)
			if me.Kind != refpvm.Continue {
				break
			}
		}
		iv, status, _ := vNewImpl(c.Blob, g, c.Regs, c.Pages, engine)
		if status != "" {
			return "engine: " + status
		}
		ie, ipc, gp, _ := iv.run(c.PC)
		d := ""
		if gp != "" {
			d = "go panic " + gp
		} else {
			d = vCompare(mp, me, ms, ie, ipc, iv, engine)
		}
		if d != "" {
			// the step paid for by the g-th unit of gas: re-run the model with g-1 and look where it stops
			ms2 := &refpvm.State{PC: c.PC, Gas: g - 1, Regs: c.Regs, Mem: refpvm.BuildMem(c.Pages)}
			for n := 0; n < 5000; n++ {
				if e := mp.Step(ms2); e.Kind != refpvm.Continue {
					break
				}
			}
			_ = lastPC
			at := ms2.PC
			end := min(int(at)+1+int(mp.Skip(at)), len(mp.Code))
			ins := ""
			if int(at) < len(mp.Code) {
				ins = fmt.Sprintf("op=%d bytes=%x skip=%d", mp.Code[at], mp.Code[at:end], mp.Skip(at))
			}
			return fmt.Sprintf("first disagreement with gas=%d, executing pc=%d %s regs_before=%x: %s", g, at, ins, ms2.Regs, d)
		}
	}
	return "no disagreement located within 400 steps"
}

func newCov() *vCov { return &vCov{ops: map[byte]bool{}, exits: map[refpvm.ExitKind]int{}} }

func (c *vCov) flush(h *vh.H, prefix string) {
	h.Count(prefix+"model_steps", int64(c.steps))
	h.Count(prefix+"segments", int64(c.segments))
	for k, n := range c.exits {
		h.Count(prefix+"exit_"+k.String(), int64(n))
	}
	for op := range c.ops {
		h.Count(fmt.Sprintf("%sop_%03d", prefix, op), 1)
	}
}

// vGridCase builds one cell of the exhaustive operand grid.
func vGridCase(r vh.R, op, b1, b2 byte, skip int, pos int) refpvm.Case {
	pages := refpvm.GenPages(r)
	var code []byte
	var mask []bool
	start := uint32(0)
	if pos == 1 { // middle: after a fallthrough
		code = append(code, 1)
		mask = append(mask, true)
		start = 1
	}
	code = append(code, op)
	mask = append(mask, true)
	tail := r.Bytes(24)
	tail[0], tail[1] = b1, b2
	n := skip
	if pos == 2 { // end: the code ends 0..9 bytes after the opcode, no further instruction
		n = min(skip, r.IntN(10))
	}
	for i := 0; i < n; i++ {
		code = append(code, tail[i])
		mask = append(mask, false)
	}
	if pos != 2 {
		// successor instructions: a fallthrough then trap so that a taken fall-through is a block start
		code = append(code, 1, 0)
		mask = append(mask, true, true)
	}
	jump := []uint64{uint64(start), uint64(len(code) - 1), 0}
	c := refpvm.Case{Blob: refpvm.EncodeBlob(code, mask, jump, 1+r.IntN(2)), PC: start, Pages: pages, Kind: fmt.Sprintf("grid op=%d b1=%#x b2=%#x skip=%d pos=%d", op, b1, b2, skip, pos)}
	c.Regs = refpvm.GenRegs(r, pages)
	c.Gas = int64(1 + r.IntN(6))
	return c
}

var vGridBytes = []byte{0, 1, 7, 8, 0x0C, 0x0F, 0x10, 0x44, 0x7F, 0x80, 0xCB, 0xFF}

func TestVerifC01(t *testing.T) {
	h := vh.Open(t, "C01")
	defer h.Done()
	cov := newCov()
	report := func(stratum string, i int, class string, d map[string]any, c refpvm.Case) {
		if class == "" {
			return
		}
		h.Viol(stratum, i, vClassifyC01(stratum, class, d, c), class, d)
	}

	// stratum 1: compiler-like programs — any divergence is an unlisted violation
	n := h.N(20000, 500000)
	for i := 0; i < n; i++ {
		if !h.Mine("compiler", i) {
			continue
		}
		h.CaseLight("compiler", i)
		c := refpvm.GenCompilerLike(h.Rng("compiler", i), vHostIDs)
		class, d, un := vRunDifferential(c, "block", cov)
		if un {
			h.Inc("unmodelled_or_capped")
			continue
		}
		report("compiler", i, class, d, c)
		h.Distinct(c.Blob, c.Gas)
		if i < 2 {
			h.Sample(map[string]any{"stratum": "compiler", "blob": vh.Hex(c.Blob), "gas": c.Gas, "model_exit": d["model_exit"]})
		}
	}
	cov.flush(h, "compiler_")

	// stratum 2: operand grid (opcode x first operand byte x second operand byte x skip x position)
	gcov := newCov()
	total := 256 * len(vGridBytes) * len(vGridBytes) * 25 * 3
	stride := 1
	if !h.Thorough() {
		stride = total / 150000
	}
	for gi := 0; gi < total; gi += stride {
		if !h.Mine("grid", gi/stride) {
			continue
		}
		h.CaseLight("grid", gi/stride)
		x := gi
		pos := x % 3
		x /= 3
		skip := x % 25
		x /= 25
		b2 := vGridBytes[x%len(vGridBytes)]
		x /= len(vGridBytes)
		b1 := vGridBytes[x%len(vGridBytes)]
		x /= len(vGridBytes)
		op := byte(x)
		c := vGridCase(h.Rng("grid", gi), op, b1, b2, skip, pos)
		class, d, un := vRunDifferential(c, "block", gcov)
		if un {
			h.Inc("unmodelled_or_capped")
			continue
		}
		report("grid", gi/stride, class, d, c)
		if refpvm.Valid(op) {
			h.Distinct("g", gi)
		}
	}
	gcov.flush(h, "grid_")

	// stratum 3: hostile — arbitrary bytes and bitmasks, invalid opcodes, odd jump tables
	hcov := newCov()
	nh := h.N(60000, 1500000)
	for i := 0; i < nh; i++ {
		if !h.Mine("hostile", i) {
			continue
		}
		h.CaseLight("hostile", i)
		c := vHostileCase(h.Rng("hostile", i))
		class, d, un := vRunDifferential(c, "block", hcov)
		if un {
			h.Inc("unmodelled_or_capped")
			continue
		}
		report("hostile", i, class, d, c)
		h.Distinct(c.Blob, c.PC)
	}
	hcov.flush(h, "hostile_")

	// stratum 4: host-call dispatch through Host.HostCall with recording omegas
	nd := h.N(20000, 300000)
	for i := 0; i < nd; i++ {
		if !h.Mine("dispatch", i) {
			continue
		}
		h.CaseLight("dispatch", i)
		vDispatchCase(h, i)
	}
}

// vHostileCase: random code, random bitmask (position 0 is an instruction start), random jump table.
func vHostileCase(r vh.R) refpvm.Case {
	pages := refpvm.GenPages(r)
	n := 1 + r.IntN(40)
	code := r.Bytes(n)
	mask := make([]bool, n)
	density := 1 + r.IntN(5)
	for i := range mask {
		mask[i] = r.IntN(density+1) == 0
	}
	mask[0] = true
	// bias opcode bytes at instruction starts towards valid opcodes
	for i := range code {
		if mask[i] && r.IntN(4) != 0 {
			for !refpvm.Valid(code[i]) || code[i] == 101 {
				code[i] = byte(r.IntN(231))
			}
		}
	}
	z := refpvm.Pick(r, []int{0, 1, 1, 2, 2, 3, 4, 8})
	nj := r.IntN(5)
	jump := make([]uint64, nj)
	for i := range jump {
		jump[i] = uint64(r.IntN(n + 2))
		if r.IntN(6) == 0 {
			jump[i] = r.U64()
		}
	}
	var starts []uint32
	for i, m := range mask {
		if m {
			starts = append(starts, uint32(i))
		}
	}
	c := refpvm.Case{Blob: refpvm.EncodeBlob(code, mask, jump, z), PC: starts[r.IntN(len(starts))], Pages: pages, Kind: "hostile"}
	if r.Bool() {
		c.PC = 0
	}
	c.Regs = refpvm.GenRegs(r, pages)
	if r.Bool() { // registers aimed at the jump table
		c.Regs[r.IntN(13)] = uint64(2 * (1 + r.IntN(nj+1)))
	}
	c.Gas = int64(r.IntN(40))
	return c
}

// vDispatchCase runs `ecalli id` programs through Host.HostCall with a table of recording omegas and
// checks which table entry (if any) was entered, ω7/gas for unknown identifiers, and the resume point.
func vDispatchCase(h *vh.H, i int) {
	r := h.Rng("dispatch", i)
	var id uint64
	switch i % 6 {
	case 0:
		id = uint64(r.IntN(30))
	case 1:
		id = uint64(27 + r.IntN(230))
	case 2:
		id = uint64(256 + r.IntN(70000))
	case 3:
		id = uint64(int64(-1 - r.IntN(300))) // sign-extended negative immediates
	case 4:
		id = uint64(r.Uint32())
		id = uint64(int64(int32(uint32(id))))
	default:
		id = refpvm.Pick(r, []uint64{100, 255, 256, 257, 1 << 16, 1<<31 - 1, 0x80000000 | 0xFFFFFFFF00000000, 0xFFFFFFFFFFFFFF00, 511, 512})
	}
	n := refpvm.ImmLen(id)
	if n < 0 {
		id = uint64(int64(int32(uint32(id))))
		n = refpvm.ImmLen(id)
	}
	a := &refpvm.Asm{}
	a.Label()
	a.OneRegImm(51, 9, 0x1234, 2) // load_imm ω9
	a.Ecalli(id, n)
	a.OneRegImm(51, 10, 0x77, 1) // executed only if the call returns and execution resumes after it
	a.Trap()
	blob := a.Blob(nil, 1)
	tableLen := refpvm.Pick(r, []int{27, 101, 128, 256})
	entered := -1
	omegas := make(Omegas, tableLen)
	for k := range omegas {
		k := k
		if r.IntN(5) == 0 && k != int(id) {
			continue // holes in the table behave like unknown identifiers
		}
		omegas[k] = func(in OmegaInput) OmegaOutput {
			entered = k
			*in.VM.Gas -= 10
			in.VM.Registers[7] = 0xAA00 + uint64(k)
			return OmegaOutput{ExitReason: ExitContinue, Addition: in.Addition}
		}
	}
	known := id < uint64(tableLen) && omegas[id] != nil
	gas0 := int64(5 + r.IntN(40))
	var res Psi_H_ReturnType
	var regs Registers
	p, msg, st := vh.Guard(func() {
		prog, er := DeBlobProgramCode(blob)
		if er != ExitContinue {
			panic("deblob rejected a well-formed program")
		}
		host := NewHost(&prog, regs, &Memory{Pages: map[uint32]*Page{}}, Gas(gas0), HostCallArgs{}, omegas)
		res = host.HostCall(0, 0)
	})
	d := map[string]any{"ecalli_id": id, "imm_len": n, "table_len": tableLen, "gas": gas0, "blob": vh.Hex(blob)}
	if p {
		d["panic"], d["stack"] = msg, st
		h.Viol("dispatch", i, "", "go-panic-in-hostcall", d)
		return
	}
	// model: 1 (load_imm) + 1 (ecalli) + 10 (charge) + 1 (load_imm) + 1 (trap) = 14 → panic; fewer gas → OOG
	wantGas := gas0 - 14
	gotGas := int64(*res.VM.Gas)
	d["entered"], d["exit"], d["gas_after"], d["w7"] = entered, res.ExitReason.String(), gotGas, res.VM.Registers[7]
	switch {
	case gas0 < 12:
		// the call itself cannot be paid: out of gas, nothing entered beyond the charge
		if res.ExitReason.GetReasonType() != OUT_OF_GAS {
			h.Viol("dispatch", i, "", "hostcall-not-out-of-gas", d)
		}
		h.Inc("dispatch_oog")
		return
	case known && entered != int(id):
		h.Viol("dispatch", i, "", "wrong-table-entry-entered", d)
	case !known && entered != -1:
		h.Viol("dispatch", i, "", "unknown-identifier-dispatched-to-a-host-call", d)
	}
	if gas0 >= 14 {
		if res.ExitReason.GetReasonType() != PANIC || gotGas != wantGas {
			h.Viol("dispatch", i, "", "resume-after-hostcall-differs", d)
		}
		if res.VM.Registers[10] != 0x77 || res.VM.Registers[9] != 0x1234 {
			h.Viol("dispatch", i, "", "resume-after-hostcall-differs", d)
		}
		if !known && res.VM.Registers[7] != WHAT {
			h.Viol("dispatch", i, "", "unknown-identifier-not-answered-WHAT", d)
		}
		if known && res.VM.Registers[7] != 0xAA00+id {
			h.Viol("dispatch", i, "", "host-call-result-lost", d)
		}
	}
	if known {
		h.Inc("dispatch_known")
	} else {
		h.Inc("dispatch_unknown")
	}
	if id >= 256 {
		h.Inc("dispatch_id_ge_256")
	}
	h.Distinct("disp", id, tableLen, gas0)
}
