package PVM

import (
	"encoding/binary"
	"fmt"
	"testing"

	"github.com/New-JAMneration/JAM-Protocol/internal/types"
	"github.com/New-JAMneration/JAM-Protocol/internal/utilities/hash"
	"github.com/New-JAMneration/JAM-Protocol/internal/zzverif/refpvm"
	"github.com/New-JAMneration/JAM-Protocol/internal/zzverif/vh"
)

// vAccProgram builds an accumulate-entry service program: host calls with arguments in the
// read-write data section, ending in halt(output length), trap or an invalid dynamic jump.
type vAccProgram struct {
	std     []byte
	ending  string
	outLen  int
	outData []byte
	calls   []string
}

func vGenAccProgram(r vh.R, c *vHC) vAccProgram {
	var data []byte
	addr := func(b []byte) uint64 {
		off := len(data)
		data = append(data, b...)
		return 0x20000 + uint64(off)
	}
	a := &refpvm.Asm{}
	a.Label()
	a.Jump(1) // pc 0: refine entry, unused
	a.Label() // pc 5: accumulate entry
	set := func(reg int, v uint64) { a.LoadImm64(reg, v) }
	call := func(id OperationType) { a.Ecalli(uint64(id), 1) }
	p := vAccProgram{}
	n := 1 + r.IntN(25)
	caller := c.add.ResultContextY.PartialState.ServiceAccounts[c.caller]
	for i := 0; i < n; i++ {
		switch r.IntN(12) {
		case 0, 1: // write
			k := c.keys[r.IntN(len(c.keys))]
			v := r.Bytes(r.IntN(40))
			set(7, addr(k))
			set(8, uint64(len(k)))
			set(9, addr(v))
			set(10, uint64(len(v)))
			call(WriteOp)
			p.calls = append(p.calls, "write")
		case 2, 3: // transfer
			d := uint64(c.caller)
			if len(c.others) > 0 {
				d = uint64(c.others[r.IntN(len(c.others))])
			}
			set(7, d)
			set(8, uint64(r.IntN(200)))
			set(9, uint64(r.IntN(40)))
			set(10, addr(r.Bytes(128)))
			call(TransferOp)
			p.calls = append(p.calls, "transfer")
		case 4: // new
			set(7, addr(r.Bytes(32)))
			set(8, uint64(r.IntN(100)))
			set(9, uint64(r.IntN(50)))
			set(10, uint64(r.IntN(50)))
			set(11, 0)
			set(12, uint64(r.IntN(300)))
			call(NewOp)
			p.calls = append(p.calls, "new")
		case 5: // solicit
			hh := c.hashes[r.IntN(len(c.hashes))]
			set(7, addr(hh[:]))
			set(8, uint64(r.IntN(40)))
			call(SolicitOp)
			p.calls = append(p.calls, "solicit")
		case 6: // forget an existing lookup entry when there is one
			hh := c.hashes[r.IntN(len(c.hashes))]
			z := uint64(r.IntN(40))
			for k := range caller.LookupDict {
				if r.IntN(2) == 0 {
					hh, z = k.Hash, uint64(k.Length)
				}
			}
			set(7, addr(hh[:]))
			set(8, z)
			call(ForgetOp)
			p.calls = append(p.calls, "forget")
		case 7: // yield
			set(7, addr(r.Bytes(32)))
			call(YieldOp)
			p.calls = append(p.calls, "yield")
		case 8: // provide a solicited blob (solicit it first in the same program)
			blob := r.Bytes(1 + r.IntN(20))
			hh := hash.Blake2bHash(blob)
			set(7, addr(hh[:]))
			set(8, uint64(len(blob)))
			call(SolicitOp)
			set(7, ^uint64(0))
			set(8, addr(blob))
			set(9, uint64(len(blob)))
			call(ProvideOp)
			p.calls = append(p.calls, "solicit+provide")
		case 9: // privileged calls (effective only if the service holds the privilege)
			switch r.IntN(3) {
			case 0:
				ab := make([]byte, 4*types.CoresCount)
				for k := 0; k < types.CoresCount; k++ {
					binary.LittleEndian.PutUint32(ab[4*k:], uint32(c.caller))
				}
				set(7, uint64(c.caller))
				set(8, addr(ab))
				set(9, uint64(c.caller))
				set(10, uint64(c.caller))
				set(11, addr(r.Bytes(12)))
				set(12, 1)
				call(BlessOp)
				p.calls = append(p.calls, "bless")
			case 1:
				set(7, uint64(r.IntN(types.CoresCount)))
				set(8, addr(r.Bytes(32*types.AuthQueueSize)))
				set(9, uint64(c.caller))
				call(AssignOp)
				p.calls = append(p.calls, "assign")
			default:
				set(7, addr(r.Bytes(336*types.ValidatorsCount)))
				call(DesignateOp)
				p.calls = append(p.calls, "designate")
			}
		default: // checkpoint
			call(CheckpointOp)
			p.calls = append(p.calls, "checkpoint")
		}
	}
	switch r.IntN(5) {
	case 0:
		p.ending = "trap"
		a.Trap()
	case 1:
		p.ending = "bad-jump"
		set(0, 3) // odd address: dynamic jump panics
		a.OneRegImm(50, 0, 0, 0)
	default:
		p.ending = "halt"
		p.outLen = []int{0, 1, 31, 32, 32, 33}[r.IntN(6)]
		p.outData = r.Bytes(p.outLen)
		set(7, addr(p.outData))
		set(8, uint64(p.outLen))
		set(0, 0xFFFF0000)
		a.OneRegImm(50, 0, 0, 0)
	}
	a.Trap()
	a.Finish()
	p.std = refpvm.StdBlob(nil, data, 0, 4096, a.Blob(nil, 1))
	return p
}

type vAccRun struct {
	res         Psi_A_ReturnType
	initProj    map[string]string
	ckptProj    map[string]string // projection at the most recent checkpoint (nil: none)
	lastX       map[string]string
	hostCalls   int
	checkpoints int
	lastExit    ExitReason
	goPanic     string
	stack       string
}

// vRunAcc runs Psi_A on a context regenerated from seed material, with the global accumulate table
// wrapped by observers.
func vRunAcc(mkCtx func() (*vHC, vAccProgram), gas types.Gas) (run vAccRun, p vAccProgram) {
	c, p := mkCtx()
	code := append([]byte{2, 'v', 'f'}, p.std...)
	ps := c.add.ResultContextY.PartialState
	kv := *c.add.ResultContextY.StorageKeyVal
	acct := ps.ServiceAccounts[c.caller]
	hh := hash.Blake2bHash(code)
	acct.ServiceInfo.CodeHash = hh
	acct.PreimageLookup[hh] = code
	ps.ServiceAccounts[c.caller] = acct

	saved := make(Omegas, len(AccumulateOmegas))
	copy(saved, AccumulateOmegas)
	defer copy(AccumulateOmegas, saved)
	for i := range AccumulateOmegas {
		orig := saved[i]
		if orig == nil {
			continue
		}
		op := OperationType(i)
		AccumulateOmegas[i] = func(in OmegaInput) OmegaOutput {
			if run.hostCalls == 0 {
				run.initProj = vProjectCtx(&in.Addition.ResultContextY)
			}
			run.hostCalls++
			out := orig(in)
			run.lastExit = out.ExitReason
			if out.ExitReason == ExitContinue {
				run.lastX = vProjectCtx(&out.Addition.ResultContextX)
				if op == CheckpointOp {
					run.ckptProj = run.lastX
					run.checkpoints++
				}
			}
			return out
		}
	}
	// expected result when no host call happens at all: the input context with nothing changed
	pre := ResultContext{PartialState: ps.DeepCopy(), StorageKeyVal: &kv, ServiceBlobs: map[types.OpaqueHash]types.ServiceBlob{}}
	noCall := vProjectCtx(&pre)
	pn, msg, st := vh.Guard(func() { run.res = Psi_A(ps, c.add.Timeslot, c.caller, gas, nil, c.add.Eta, kv) })
	if pn {
		run.goPanic, run.stack = msg, st
	}
	if run.hostCalls == 0 {
		run.initProj = noCall
	}
	return run, p
}

func vProjectResult(res Psi_A_ReturnType) map[string]string {
	rc := ResultContext{PartialState: res.PartialStateSet, DeferredTransfers: res.DeferredTransfers, Exception: res.Result, StorageKeyVal: &res.StorageKeyVal,
		ServiceBlobs: map[types.OpaqueHash]types.ServiceBlob{}}
	for i, b := range res.ServiceBlobs {
		var k types.OpaqueHash
		binary.LittleEndian.PutUint32(k[:], uint32(i))
		rc.ServiceBlobs[k] = b
	}
	return vProjectCtx(&rc)
}

func vDropKeys(m map[string]string, keys ...string) map[string]string {
	out := map[string]string{}
	for k, v := range m {
		out[k] = v
	}
	for _, k := range keys {
		delete(out, k)
	}
	return out
}

func TestVerifC10(t *testing.T) {
	h := vh.Open(t, "C10")
	defer h.Done()
	types.SetTinyMode()
	n := h.N(3000, 80000)
	for i := 0; i < n; i++ {
		if !h.Mine("prog", i) {
			continue
		}
		h.CaseLight("prog", i)
		mk := func() (*vHC, vAccProgram) {
			r := h.Rng("prog", i)
			c := vNewHC(r)
			// plenty of balance so that most mutations are accepted
			a := c.add.ResultContextY.PartialState.ServiceAccounts[c.caller]
			a.ServiceInfo.Balance += 50000
			c.add.ResultContextY.PartialState.ServiceAccounts[c.caller] = a
			return c, vGenAccProgram(r, c)
		}
		check := func(label string, run vAccRun, p vAccProgram, want map[string]string, wantYield *[32]byte, yieldFromX bool) {
			d := map[string]any{"run": label, "calls": fmt.Sprint(p.calls), "ending": p.ending, "out_len": p.outLen, "host_calls": run.hostCalls, "checkpoints": run.checkpoints}
			if run.goPanic != "" {
				d["panic"], d["stack"] = run.goPanic, run.stack
				h.Viol("prog", i, "", "accumulate-go-panic", d)
				return
			}
			got := vDropKeys(vProjectResult(run.res), "nextid")
			w := vDropKeys(want, "nextid")
			if wantYield != nil {
				w = vDropKeys(w, "yield")
				g2 := vDropKeys(got, "yield")
				if run.res.Result == nil || [32]byte(*run.res.Result) != *wantYield {
					h.Viol("prog", i, "", "32-byte return value does not override the yield", d)
				}
				got = g2
			}
			if diff := vProjDiff(w, got); diff != "[]" {
				d["differs_in"] = diff
				h.Viol("prog", i, "", "accumulation result differs from the "+map[bool]string{true: "latest context", false: "checkpointed context"}[yieldFromX], d)
			}
		}
		// run A: ample gas, the program ends as designed
		runA, p := vRunAcc(mk, 1_000_000)
		if runA.goPanic == "" && runA.lastExit.GetReasonType() == PANIC && runA.hostCalls > 0 {
			// a host call panicked (e.g. unreadable argument): treated like any panic
			p.ending = "host-call-panic"
		}
		switch p.ending {
		case "halt":
			want := runA.lastX
			if want == nil {
				want = runA.initProj
			}
			var wy *[32]byte
			if p.outLen == 32 {
				var y [32]byte
				copy(y[:], p.outData)
				wy = &y
			}
			check("halt", runA, p, want, wy, true)
			h.Inc(fmt.Sprintf("ending_halt_out%d", p.outLen))
		default:
			want := runA.ckptProj
			if want == nil {
				want = runA.initProj
			}
			check(p.ending, runA, p, want, nil, false)
			h.Inc("ending_" + p.ending)
		}
		if runA.checkpoints > 0 && runA.hostCalls > runA.checkpoints {
			h.Inc("programs_with_checkpoint_and_mutation")
		}
		// run B: gas strictly less than run A used: out of gas somewhere inside
		used := uint64(runA.res.Gas)
		if runA.goPanic == "" && used > 1 {
			g := types.Gas(h.Rng("prog-gas", i).Uint64() % used)
			runB, pB := vRunAcc(mk, g)
			want := runB.ckptProj
			if want == nil {
				want = runB.initProj
			}
			check(fmt.Sprintf("out-of-gas(limit %d of %d)", g, used), runB, pB, want, nil, false)
			h.Inc("ending_out_of_gas")
			if runB.checkpoints > 0 {
				h.Inc("oog_after_checkpoint")
			}
		}
		h.Count("host_calls", int64(runA.hostCalls))
		h.Distinct(p.std)
		if i < 2 {
			h.Sample(map[string]any{"calls": p.calls, "ending": p.ending, "out_len": p.outLen})
		}
	}
}
