package PVM

import (
	"fmt"
	"math/big"
	"testing"

	"github.com/New-JAMneration/JAM-Protocol/internal/service_account"
	"github.com/New-JAMneration/JAM-Protocol/internal/types"
	"github.com/New-JAMneration/JAM-Protocol/internal/zzverif/refpvm"
	"github.com/New-JAMneration/JAM-Protocol/internal/zzverif/vh"
)

func vHostSeqTest(t *testing.T, id string, mon vMonitors, quick, thorough int) *vh.H {
	h := vh.Open(t, id)
	n := h.N(quick, thorough)
	for i := 0; i < n; i++ {
		if !h.Mine("seq", i) {
			continue
		}
		h.CaseLight("seq", i)
		m := mon
		if mon.ledger && i%4 == 0 {
			m.transferBias = true // more transfers that reach the balance step
		}
		vRunHostSequence(h, "seq", i, h.Rng("seq", i), m)
		h.Distinct("seq", i)
	}
	h.Sample(map[string]any{"sequence": "1..40 host calls on one generated accumulation context (caller + 0..3 other accounts, dictionary and raw-pool entries, 4 RW pages + 1 RO page)", "ops": fmt.Sprint(len(vSeqOps))})
	return h
}

func TestVerifC07(t *testing.T) {
	h := vHostSeqTest(t, "C07", vMonitors{frame: true, charge: true}, 8000, 200000)
	defer h.Done()
	// unknown identifiers through real programs and the REAL accumulate / refine tables
	n := h.N(3000, 60000)
	for i := 0; i < n; i++ {
		if !h.Mine("unknown", i) {
			continue
		}
		h.CaseLight("unknown", i)
		r := h.Rng("unknown", i)
		table, tname := AccumulateOmegas, "accumulate"
		if r.Bool() {
			table, tname = RefineOmegas, "refine"
		}
		var id uint64
		for {
			switch r.IntN(5) {
			case 0:
				id = uint64(27 + r.IntN(73))
			case 1:
				id = uint64(101 + r.IntN(155))
			case 2:
				id = uint64(256 + r.IntN(1<<20))
			case 3:
				id = uint64(int64(-1 - r.IntN(1000)))
			default:
				id = uint64(r.IntN(27)) // defined in one table, undefined in the other
			}
			if id >= uint64(len(table)) || table[id] == nil {
				break
			}
		}
		nimm := refpvm.ImmLen(id)
		if nimm < 0 {
			id = uint64(int64(int32(uint32(id))))
			nimm = refpvm.ImmLen(id)
			if id < uint64(len(table)) && table[id] != nil {
				continue
			}
		}
		a := &refpvm.Asm{}
		a.Label()
		a.Ecalli(id, nimm)
		a.Trap()
		c := vNewHC(r)
		for k := range c.regs {
			c.regs[k] = r.U64()
		}
		regs0 := c.regs
		px0, py0 := vProjectCtx(&c.add.ResultContextX), vProjectCtx(&c.add.ResultContextY)
		mem0 := vSnapMem(c.mem)
		var res Psi_H_ReturnType
		gas0 := Gas(12 + r.IntN(30))
		p, msg, st := vh.Guard(func() {
			prog, er := DeBlobProgramCode(a.Blob(nil, 1))
			if er != ExitContinue {
				panic("deblob")
			}
			c.add.Program = &prog
			host := NewHost(&prog, c.regs, c.mem, gas0, c.add, table)
			res = host.HostCall(0, 0)
		})
		d := map[string]any{"id": id, "table": tname, "gas": gas0}
		if p {
			d["panic"], d["stack"] = msg, st
			h.Viol("unknown", i, "", "unknown-identifier: go panic", d)
			continue
		}
		want := regs0
		want[7] = WHAT
		ch, _ := vMemRanges(mem0, c.mem)
		switch {
		case res.ExitReason.GetReasonType() != PANIC: // the trap after the call
			d["exit"] = res.ExitReason.String()
			h.Viol("unknown", i, "", "unknown-identifier: execution did not continue after the call", d)
		case *res.VM.Registers != want:
			d["regs"] = fmt.Sprintf("%x", *res.VM.Registers)
			h.Viol("unknown", i, "", "unknown-identifier: must set only ω7 = WHAT", d)
		case int64(*res.VM.Gas) != int64(gas0)-1-10-1:
			d["gas_after"] = *res.VM.Gas
			h.Viol("unknown", i, "", "unknown-identifier: must charge exactly 10", d)
		case len(ch) > 0 || vProjDiff(px0, vProjectCtx(&res.Addition.ResultContextX)) != "[]" || vProjDiff(py0, vProjectCtx(&res.Addition.ResultContextY)) != "[]":
			h.Viol("unknown", i, "", "unknown-identifier: changed memory or context", d)
		}
		h.Inc("unknown_ids")
		h.Distinct("u", id, tname)
	}
}

func TestVerifC08(t *testing.T) {
	h := vHostSeqTest(t, "C08", vMonitors{ledger: true}, 12000, 300000)
	defer h.Done()
	// incoming transfers are credited exactly by Psi_A (whatever the program then does)
	n := h.N(1500, 30000)
	for i := 0; i < n; i++ {
		if !h.Mine("credit", i) {
			continue
		}
		h.CaseLight("credit", i)
		r := h.Rng("credit", i)
		types.SetTinyMode()
		a := &refpvm.Asm{}
		a.Label() // pc 0
		a.Jump(0)
		a.Label() // pc 5 (accumulate entry): trap / halt
		if r.Bool() {
			a.Trap()
		} else {
			a.LoadImm64(0, 0xFFFF0000)
			a.OneRegImm(50, 0, 0, 0)
		}
		a.Finish()
		code := append([]byte{0}, refpvm.StdBlob(nil, nil, 0, 0, a.Blob(nil, 1))...)
		acct, _ := vAccountWithCode(code)
		bal0 := uint64(r.IntN(1_000_000))
		acct.ServiceInfo.Balance = types.U64(bal0)
		var in []types.OperandOrDeferredTransfer
		sum := vBig().SetUint64(bal0)
		for k := 0; k < r.IntN(5); k++ {
			amt := r.U64() >> uint(8+r.IntN(50))
			in = append(in, types.OperandOrDeferredTransfer{DeferredTransfer: &types.DeferredTransfer{SenderID: 9, ReceiverID: 7, Balance: types.U64(amt), GasLimit: 5}})
			sum.Add(sum, vBig().SetUint64(amt))
		}
		ps := types.PartialStateSet{ServiceAccounts: types.ServiceAccountState{7: acct}, Assign: make(types.ServiceIDList, types.CoresCount),
			ValidatorKeys: make(types.ValidatorsData, types.ValidatorsCount), Authorizers: make(types.AuthQueues, types.CoresCount), AlwaysAccum: types.AlwaysAccumulateMap{}}
		var res Psi_A_ReturnType
		if p, msg, st := vh.Guard(func() { res = Psi_A(ps, 10, 7, 1000, in, types.Entropy{}, types.StateKeyVals{}) }); p {
			h.Viol("credit", i, "", "ledger: Psi_A go panic", map[string]any{"panic": msg, "stack": st})
			continue
		}
		got := bigU(res.PartialStateSet.ServiceAccounts[7].ServiceInfo.Balance)
		if sum.IsUint64() && got.Cmp(sum) != 0 {
			h.Viol("credit", i, "", "ledger: incoming transfers not credited exactly", map[string]any{"balance": bal0, "incoming": len(in), "want": sum.String(), "got": got.String()})
		}
		h.Inc("credit_cases")
		h.Distinct("credit", i)
	}
	// whole accumulations: whatever the program does and however it ends (halt, trap, bad jump, panicking host call, out of
	// gas at a random point), balances + the transfers handed back never exceed what the service started with
	np := h.N(2500, 60000)
	for i := 0; i < np; i++ {
		if !h.Mine("whole", i) {
			continue
		}
		h.CaseLight("whole", i)
		var before *big.Int
		mk := func() (*vHC, vAccProgram) {
			r := h.Rng("whole", i)
			c := vNewHC(r)
			a := c.add.ResultContextY.PartialState.ServiceAccounts[c.caller]
			a.ServiceInfo.Balance += 50000
			c.add.ResultContextY.PartialState.ServiceAccounts[c.caller] = a
			before = vBig()
			for _, acc := range c.add.ResultContextY.PartialState.ServiceAccounts {
				before.Add(before, bigU(acc.ServiceInfo.Balance))
			}
			return c, vGenAccProgram(r, c)
		}
		judge := func(label string, run vAccRun, p vAccProgram) {
			if run.goPanic != "" {
				return // C10 / C03 report crashes
			}
			after := vBig()
			for _, acc := range run.res.PartialStateSet.ServiceAccounts {
				after.Add(after, bigU(acc.ServiceInfo.Balance))
			}
			for _, tr := range run.res.DeferredTransfers {
				after.Add(after, bigU(tr.Balance))
			}
			if after.Cmp(before) > 0 {
				h.Viol("whole", i, "", "ledger: balances plus deferred transfers after an accumulation exceed the total before it",
					map[string]any{"run": label, "before": before.String(), "after": after.String(), "calls": fmt.Sprint(p.calls), "ending": p.ending, "transfers_returned": len(run.res.DeferredTransfers)})
			}
			h.Inc("whole_accumulations_" + label)
			if len(run.res.DeferredTransfers) > 0 {
				h.Inc("whole_accumulations_returning_transfers")
			}
		}
		runA, p := vRunAcc(mk, 1_000_000)
		lbl := "halt"
		if p.ending != "halt" || (runA.lastExit.GetReasonType() == PANIC && runA.hostCalls > 0) {
			lbl = "exceptional"
		}
		judge(lbl, runA, p)
		if used := uint64(runA.res.Gas); runA.goPanic == "" && used > 1 {
			g := types.Gas(h.Rng("whole-gas", i).Uint64() % used)
			runB, pB := vRunAcc(mk, g)
			judge("out_of_gas", runB, pB)
		}
		h.Distinct("whole", i)
	}
}

func TestVerifC09(t *testing.T) {
	h := vHostSeqTest(t, "C09", vMonitors{footprint: true}, 12000, 300000)
	defer h.Done()
	// threshold grid (exhaustive over the grid): items x octets x gratis offset
	items := []uint64{0, 1, 2, 1<<32/10 - 2, 1<<32/10 - 1, 1 << 32 / 10, 1<<32/10 + 1, 1<<32/10 + 2, 1 << 31, 1<<32 - 2, 1<<32 - 1}
	var octs []uint64
	for _, b := range []uint64{0, 1, 1 << 32, 1 << 63} {
		octs = append(octs, b, b+1)
	}
	for d := uint64(0); d < 112; d += 3 {
		octs = append(octs, ^uint64(0)-d)
	}
	gi := 0
	for _, it := range items {
		for _, oc := range octs {
			raw := vBig().SetUint64(100)
			raw.Add(raw, vBig().Mul(big.NewInt(10), vBig().SetUint64(it)))
			raw.Add(raw, vBig().SetUint64(oc))
			var fs []uint64
			fs = append(fs, 0, 1, ^uint64(0), ^uint64(0)-1, 1<<63)
			if raw.IsUint64() {
				x := raw.Uint64()
				fs = append(fs, x, x-1, x+1, x-100, x+100)
			} else {
				low := vBig().Sub(raw, vBig().Lsh(big.NewInt(1), 64))
				if low.IsUint64() {
					fs = append(fs, low.Uint64(), low.Uint64()+1, low.Uint64()+1000)
				}
			}
			for _, f := range fs {
				gi++
				if !h.Mine("grid", gi) {
					continue
				}
				h.CaseLight("grid", gi)
				want := vThreshold(it, vBig().SetUint64(oc), f)
				if !want.IsUint64() {
					h.Inc("threshold_not_representable") // U7: counted, not judged
					continue
				}
				var got types.U64
				if p, msg, _ := vh.Guard(func() { got = service_account.CalcThresholdBalance(types.U32(it), types.U64(oc), types.U64(f)) }); p {
					h.Viol("grid", gi, "", "footprint: threshold go panic", map[string]any{"panic": msg})
					continue
				}
				if uint64(got) != want.Uint64() {
					h.Viol("grid", gi, "", "footprint: threshold differs from B_S + B_I*i + B_L*o - f", map[string]any{"items": it, "octets": oc, "gratis": f, "got": uint64(got), "want": want.String()})
				}
				h.Inc("threshold_points")
				h.Distinct("thr", it, oc, f)
			}
		}
	}
}
