package PVM

import (
	"bytes"
	"fmt"
	"sort"
	"testing"

	"github.com/New-JAMneration/JAM-Protocol/internal/zzverif/refpvm"
	"github.com/New-JAMneration/JAM-Protocol/internal/zzverif/vh"
)

type vSnap struct {
	exit  ExitReason
	pc    uint32
	gas   int64
	regs  [13]uint64
	pages map[uint32]vPageSnap
	hp    uint64
}

type vPageSnap struct {
	acc  MemoryAccess
	data []byte
}

func vTakeSnap(iv *vImpl, er ExitReason, pc ProgramCounter) vSnap {
	s := vSnap{exit: er, pc: uint32(pc), gas: int64(iv.interp.Gas), regs: iv.interp.Registers, pages: map[uint32]vPageSnap{}, hp: iv.interp.Memory.heapPointer}
	for k, p := range iv.interp.Memory.Pages {
		s.pages[k] = vPageSnap{acc: p.Access, data: append([]byte(nil), p.Value...)}
	}
	return s
}

// vMemEqualExcept reports the first difference between two page maps outside [lo,hi) (addresses).
func vMemEqualExcept(a, b map[uint32]vPageSnap, lo, hi uint64) string {
	for k, p := range a {
		q, ok := b[k]
		if !ok {
			return fmt.Sprintf("page %d disappeared", k)
		}
		if p.acc != q.acc {
			return fmt.Sprintf("page %d access %d -> %d", k, p.acc, q.acc)
		}
		if !bytes.Equal(p.data, q.data) {
			for i := range p.data {
				addr := uint64(k)*ZP + uint64(i)
				if p.data[i] != q.data[i] && !(addr >= lo && addr < hi) {
					return fmt.Sprintf("byte %#x changed %02x -> %02x", addr, p.data[i], q.data[i])
				}
			}
		}
	}
	for k := range b {
		if _, ok := a[k]; !ok {
			return fmt.Sprintf("page %d appeared", k)
		}
	}
	return ""
}

func vByteAt(pages map[uint32]vPageSnap, addr uint64) (byte, MemoryAccess, bool) {
	p, ok := pages[uint32(addr/ZP)]
	if !ok {
		return 0, MemoryInaccessible, false
	}
	return p.data[addr%ZP], p.acc, true
}

// vGenMemProgram: straight-line program of loads/stores of every width and addressing form aimed at
// page edges, with load_imm_64 setting the base registers. Ends in trap.
func vGenMemProgram(r vh.R) refpvm.Case { return vGenMemProgramOn(r, refpvm.GenPages(r)) }

func vGenMemProgramOn(r vh.R, pages []refpvm.PageSpec) refpvm.Case {
	a := &refpvm.Asm{}
	a.Label()
	n := 3 + r.IntN(14)
	for i := 0; i < n; i++ {
		addr := refpvm.GenAddr(r, pages) & 0xFFFFFFFF
		base := r.IntN(13)
		val := r.IntN(13)
		switch r.IntN(7) {
		case 0: // direct load
			a.OneRegImm(byte(52+r.IntN(7)), val, refpvm.SignExtend(4, addr), 4)
		case 1: // direct store
			a.OneRegImm(byte(59+r.IntN(4)), val, refpvm.SignExtend(4, addr), 4)
		case 2: // store immediate
			a.TwoImm(byte(30+r.IntN(4)), refpvm.SignExtend(4, addr), 4, r.U64()&0x7FFFFFFF, 4)
		case 3: // indirect load: base register + small offset
			d := uint64(int64(r.IntN(17) - 8))
			a.LoadImm64(base, (addr-d)&0xFFFFFFFF|uint64(r.IntN(2))<<40)
			a.TwoRegImm(byte(124+r.IntN(7)), val, base, d, 1)
			i++
		case 4: // indirect store
			d := uint64(int64(r.IntN(17) - 8))
			a.LoadImm64(base, (addr-d)&0xFFFFFFFF)
			a.TwoRegImm(byte(120+r.IntN(4)), val, base, d, 1)
			i++
		case 5: // store immediate indirect
			d := uint64(int64(r.IntN(17) - 8))
			a.LoadImm64(base, (addr-d)&0xFFFFFFFF)
			a.OneRegTwoImm(byte(70+r.IntN(4)), base, d, 1, uint64(r.Uint32()&0x7FFFFFFF), 4)
			i++
		default: // a non-memory instruction in between
			a.ThreeReg(byte(200+r.IntN(3)), r.IntN(13), r.IntN(13), r.IntN(13))
		}
	}
	a.Trap()
	c := refpvm.Case{Blob: a.Blob(nil, 1), Pages: pages, Kind: "mem"}
	c.Regs = refpvm.GenRegs(r, pages)
	c.Gas = int64(n + 4)
	return c
}

// vFrameCheck runs the program with gas 0,1,2,… and checks the frame condition of every executed
// instruction on consecutive states. stdblob/arg != nil: standard program through SingleInitializer.
func vFrameCheck(h *vh.H, stratum string, ci int, blob []byte, pc0 uint32, regs [13]uint64, mk func(gas int64) (*vImpl, string), maxSteps int, stackStartPage uint32, heapStartPage uint32, heapStart uint64) {
	mp, ok := refpvm.Deblob(blob)
	if !ok {
		return
	}
	var prev vSnap
	for k := 0; k <= maxSteps; k++ {
		iv, status := mk(int64(k))
		if status != "" {
			h.Viol(stratum, ci, "", "load-failed", map[string]any{"status": status})
			return
		}
		er, pc, gp, st := iv.run(pc0)
		if gp != "" {
			h.Viol(stratum, ci, "", "go-panic-in-engine", map[string]any{"blob": vh.Hex(blob), "gas": k, "panic": gp, "stack": st})
			return
		}
		cur := vTakeSnap(iv, er, pc)
		if k == 0 {
			prev = cur
			if er.GetReasonType() != OUT_OF_GAS {
				h.Viol(stratum, ci, "", "no-out-of-gas-with-zero-gas", map[string]any{"exit": er.String()})
				return
			}
			continue
		}
		// prev: stopped out-of-gas at prev.pc having executed k-1 instructions; cur executed one more
		in := mp.Decode(prev.pc)
		d := map[string]any{"blob": vh.Hex(blob), "step": k, "pc": prev.pc, "op": in.Op, "regs_before": fmt.Sprintf("%x", prev.regs), "exit": er.String()}
		viol := func(class string, why string) {
			d["why"] = why
			h.Viol(stratum, ci, "", class, d)
		}
		completed := er.GetReasonType() == OUT_OF_GAS && cur.gas == 0
		switch {
		case in.Kind == "load" || in.Kind == "store":
			base := uint64(0)
			if in.BaseReg >= 0 {
				base = prev.regs[in.BaseReg]
			}
			addr := uint64(uint32(base + in.Off))
			if addr+uint64(in.Width) > 1<<32 {
				h.Inc("not_judged_wrap")
				return
			}
			d["addr"], d["width"], d["kind"] = addr, in.Width, in.Kind
			allowed, below := true, false
			for i := uint64(0); i < uint64(in.Width); i++ {
				_, acc, present := vByteAt(prev.pages, addr+i)
				if addr+i < 1<<16 {
					below = true
				}
				if !present || acc == MemoryInaccessible || (in.Kind == "store" && acc != MemoryReadWrite) {
					allowed = false
				}
			}
			if below || !allowed {
				// must not complete; nothing may change
				if completed {
					viol("access-to-protected-memory-completed", "the access is not permitted by the page map (or touches addresses below 2^16) but the instruction completed")
					return
				}
				if below && er.GetReasonType() != PANIC {
					viol("access-below-2^16-did-not-panic", "exit "+er.String())
					return
				}
				if !below && er.GetReasonType() != PAGE_FAULT {
					viol("inaccessible-access-did-not-page-fault", "exit "+er.String())
					return
				}
				if cur.regs != prev.regs {
					viol("faulting-access-changed-a-register", fmt.Sprintf("%x", cur.regs))
					return
				}
				if m := vMemEqualExcept(prev.pages, cur.pages, 0, 0); m != "" {
					viol("faulting-access-changed-memory", m)
					return
				}
				h.Inc("faulting_accesses_" + in.Kind)
				return // execution ended here
			}
			if !completed {
				viol("permitted-access-did-not-complete", "exit "+er.String())
				return
			}
			if in.Kind == "load" {
				var v uint64
				for i := uint64(0); i < uint64(in.Width); i++ {
					b, _, _ := vByteAt(prev.pages, addr+i)
					v |= uint64(b) << (8 * i)
				}
				if in.Signed {
					v = refpvm.SignExtend(in.Width, v)
				}
				want := prev.regs
				want[in.DstReg] = v
				if cur.regs != want {
					viol("load-result-or-other-register-wrong", fmt.Sprintf("got %x want %x", cur.regs, want))
					return
				}
				if m := vMemEqualExcept(prev.pages, cur.pages, 0, 0); m != "" {
					viol("load-changed-memory", m)
					return
				}
				h.Inc("loads_completed")
			} else {
				val := in.Val
				if in.ValReg >= 0 {
					val = prev.regs[in.ValReg]
				}
				if cur.regs != prev.regs {
					viol("store-changed-a-register", "")
					return
				}
				if m := vMemEqualExcept(prev.pages, cur.pages, addr, addr+uint64(in.Width)); m != "" {
					viol("store-changed-memory-outside-its-range", m)
					return
				}
				for i := uint64(0); i < uint64(in.Width); i++ {
					b, _, _ := vByteAt(cur.pages, addr+i)
					if b != byte(val>>(8*i)) {
						viol("store-wrote-wrong-bytes", fmt.Sprintf("byte %d = %02x", i, b))
						return
					}
				}
				h.Inc("stores_completed")
				if addr/ZP != (addr+uint64(in.Width)-1)/ZP {
					h.Inc("cross_page_accesses_completed")
				}
			}
		case in.Op == 101 && in.Valid: // sbrk
			if !completed {
				viol("sbrk-did-not-complete", "exit "+er.String())
				return
			}
			inc := prev.regs[in.RA]
			res := cur.regs[in.RD]
			d["increment"], d["result"], d["heap_pointer_before"] = inc, res, prev.hp
			for i := 0; i < 13; i++ {
				if i != in.RD && cur.regs[i] != prev.regs[i] {
					viol("sbrk-changed-another-register", fmt.Sprint(i))
					return
				}
			}
			// existing pages untouched; new pages zero, read-write, inside [heap start page, stack boundary)
			for k2, p := range prev.pages {
				q, ok := cur.pages[k2]
				if !ok || q.acc != p.acc || !bytes.Equal(q.data, p.data) {
					viol("sbrk-changed-an-existing-page", fmt.Sprint(k2))
					return
				}
			}
			newPages := 0
			for k2, q := range cur.pages {
				if _, ok := prev.pages[k2]; ok {
					continue
				}
				newPages++
				if q.acc != MemoryReadWrite {
					viol("sbrk-page-not-read-write", fmt.Sprint(k2))
					return
				}
				for _, b := range q.data {
					if b != 0 {
						viol("sbrk-page-not-zero", fmt.Sprint(k2))
						return
					}
				}
				if k2 >= stackStartPage {
					viol("sbrk-mapped-a-page-at-or-above-the-stack-boundary", fmt.Sprintf("page %d, boundary page %d", k2, stackStartPage))
					return
				}
				if uint64(k2) >= (cur.hp+ZP-1)/ZP || uint64(k2) < prev.hp/ZP {
					viol("sbrk-mapped-a-page-outside-the-grown-range", fmt.Sprintf("page %d, heap pointer %#x -> %#x", k2, prev.hp, cur.hp))
					return
				}
				if k2 < heapStartPage {
					viol("sbrk-mapped-a-page-below-the-heap", fmt.Sprintf("page %d, heap page %d", k2, heapStartPage))
					return
				}
			}
			// a successful growth (non-zero increment, non-zero result) must leave [old hp, old hp + inc) usable
			if inc != 0 && res != 0 && inc < 1<<24 {
				for a := prev.hp; a < prev.hp+inc; a += ZP {
					if _, acc, ok := vByteAt(cur.pages, a); !ok || acc != MemoryReadWrite {
						viol("sbrk-success-but-range-not-writable", fmt.Sprintf("address %#x", a))
						return
					}
				}
				if _, acc, ok := vByteAt(cur.pages, prev.hp+inc-1); !ok || acc != MemoryReadWrite {
					viol("sbrk-success-but-range-not-writable", fmt.Sprintf("address %#x", prev.hp+inc-1))
					return
				}
				h.Inc("sbrk_grown")
			} else if inc != 0 {
				h.Inc("sbrk_refused")
				if newPages != 0 {
					viol("sbrk-refused-but-mapped-pages", fmt.Sprint(newPages))
					return
				}
			}
			if newPages > 0 {
				h.Inc("sbrk_new_pages")
			}
		default:
			// every other instruction: memory (page set, access, contents) unchanged
			if m := vMemEqualExcept(prev.pages, cur.pages, 0, 0); m != "" {
				viol("non-memory-instruction-changed-memory", m)
				return
			}
			if !completed {
				return // trap / halt / panic ends the run
			}
		}
		prev = cur
	}
}

func TestVerifC05(t *testing.T) {
	h := vh.Open(t, "C05")
	defer h.Done()

	// ---- part A: loads and stores against the page map -----------------------------------------
	n := h.N(20000, 400000)
	for i := 0; i < n; i++ {
		if !h.Mine("mem", i) {
			continue
		}
		h.CaseLight("mem", i)
		c := vGenMemProgram(h.Rng("mem", i))
		mk := func(g int64) (*vImpl, string) {
			iv, st, _ := vNewImpl(c.Blob, g, c.Regs, c.Pages, "block")
			return iv, st
		}
		vFrameCheck(h, "mem", i, c.Blob, 0, c.Regs, mk, int(c.Gas), 1<<20, 0, 0)
		h.Distinct(c.Blob)
		if i < 2 {
			h.Sample(map[string]any{"stratum": "mem", "blob": vh.Hex(c.Blob), "pages": fmt.Sprint(c.Pages)})
		}
	}

	// ---- part C: page maps produced by the REAL `machine` / `pages` / `poke` host calls of an inner machine ------------
	// (pages made read-only, read-write, or inaccessible again by page calls; contents zeroed or kept per mode)
	ni := h.N(6000, 120000)
	for i := 0; i < ni; i++ {
		if !h.Mine("inner", i) {
			continue
		}
		h.CaseLight("inner", i)
		vInnerPagesCase(h, i, h.Rng("inner", i))
	}

	// ---- part B: heap growth through sbrk on initialised standard programs ------------------------
	ns := h.N(6000, 100000)
	for i := 0; i < ns; i++ {
		if !h.Mine("sbrk", i) {
			continue
		}
		h.CaseLight("sbrk", i)
		r := h.Rng("sbrk", i)
		oLen, wLen := r.Size(9000), r.Size(9000)
		z := uint16(r.IntN(4))
		s := uint32(r.Size(70000))
		a := &refpvm.Asm{}
		a.Label()
		steps := 0
		// layout numbers (GP A.7) to aim the increments at the limit
		Zf := func(x int) uint64 { return 65536 * uint64((x+65535)/65536) }
		Pf := func(x int) uint64 { return 4096 * uint64((x+4095)/4096) }
		heapStart := 2*65536 + Zf(oLen) + Pf(wLen) + uint64(z)*4096
		stackStart := uint64(1<<32-2*65536-(1<<24)) - Pf(int(s))
		room := stackStart - heapStart
		hpGuess := heapStart
		for k := 0; k < 2+r.IntN(6); k++ {
			var inc uint64
			switch r.IntN(10) {
			case 0:
				inc = 0
			case 1:
				inc = 1
			case 2:
				inc = 4095 + uint64(r.IntN(3))
			case 3:
				// just beyond the limit (a growth up to the limit itself would map ~4 GiB and is not explored)
				inc = stackStart - hpGuess + 1 + uint64(r.IntN(3))
			case 4:
				inc = 1 << 32
			case 5:
				inc = ^uint64(0) - uint64(r.IntN(3))
			case 6:
				inc = room + uint64(r.IntN(8192)) + 1
			default:
				inc = uint64(r.IntN(3 * 4096))
			}
			ra, rd := r.IntN(13), r.IntN(13)
			a.LoadImm64(ra, inc)
			a.TwoReg(101, rd, ra)
			steps += 2
			if inc < room && hpGuess+inc <= stackStart {
				hpGuess += inc
			}
			if r.Bool() { // touch the returned region
				a.TwoRegImm(120, r.IntN(13), rd, uint64(int64(-1-r.IntN(8))), 1)
				steps++
			}
		}
		a.Trap()
		blob := a.Blob(nil, 1)
		std := refpvm.StdBlob(r.Bytes(oLen), r.Bytes(wLen), z, s, blob)
		arg := r.Bytes(r.IntN(100))
		var regs0 Registers
		mk := func(g int64) (*vImpl, string) {
			code, regs, mem, er := SingleInitializer(StandardCodeFormat(std), Argument(arg))
			if er != ExitContinue {
				return nil, "initializer rejected"
			}
			prog, er := DeBlobProgramCode(code)
			if er != ExitContinue {
				return nil, "deblob rejected"
			}
			regs0 = regs
			iv := &vImpl{prog: prog, engine: "block"}
			iv.interp = NewInterpreter(&iv.prog, regs, &mem, Gas(g))
			return iv, ""
		}
		vFrameCheck(h, "sbrk", i, blob, 0, [13]uint64(regs0), mk, steps+1, uint32(stackStart/4096), uint32(heapStart/4096), heapStart)
		h.Distinct(blob, oLen, wLen, int(z), int(s))
		if i < 1 {
			h.Sample(map[string]any{"stratum": "sbrk", "program": vh.Hex(blob), "o": oLen, "w": wLen, "z": z, "s": s})
		}
	}
}

// vInnerPagesCase: a script of page calls decides the inner machine's page map (model: GP B.8 `pages`: mode 0 inaccessible,
// 1/3 read-only, 2/4 read-write, modes 3/4 refused with HUH when a page of the range is inaccessible); a load/store
// program aimed at the edges of exactly those pages is stored with `machine`, the script is executed through the real
// host calls, the resulting page map is compared with the model and the program is then stepped under the frame monitor
// on a copy of the inner machine's memory, with both engines.
func vInnerPagesCase(h *vh.H, ci int, r vh.R) {
	type call struct{ p, c, md uint64 }
	var script []call
	model := map[uint32]refpvm.Access{}
	touched := map[uint32]bool{}
	nc := 2 + r.IntN(7)
	for k := 0; k < nc; k++ {
		base := []uint64{16, 30, 31, 32, 33, 34, 47, 48, 49}[r.IntN(9)]
		cl := call{p: base, c: uint64(1 + r.IntN(4)), md: uint64(r.IntN(5))}
		if k >= 2 && r.IntN(3) == 0 && len(touched) > 0 {
			cl.md = 0 // withdraw access again
			var ks []uint32
			for pg := range touched {
				ks = append(ks, pg)
			}
			sort.Slice(ks, func(a, b int) bool { return ks[a] < ks[b] })
			cl.p, cl.c = uint64(ks[r.IntN(len(ks))]), uint64(1+r.IntN(2))
		}
		script = append(script, cl)
		refused := false
		if cl.md > 2 {
			for pg := cl.p; pg < cl.p+cl.c; pg++ {
				if model[uint32(pg)] == refpvm.None {
					refused = true
				}
			}
		}
		if refused {
			continue
		}
		for pg := cl.p; pg < cl.p+cl.c; pg++ {
			touched[uint32(pg)] = true
			switch cl.md {
			case 0:
				delete(model, uint32(pg))
			case 1, 3:
				model[uint32(pg)] = refpvm.RO
			default:
				model[uint32(pg)] = refpvm.RW
			}
		}
	}
	var specs []refpvm.PageSpec
	var tk []uint32
	for pg := range touched {
		tk = append(tk, pg)
	}
	sort.Slice(tk, func(a, b int) bool { return tk[a] < tk[b] })
	withdrawn := 0
	for _, pg := range tk {
		specs = append(specs, refpvm.PageSpec{No: pg, Acc: model[pg]})
		if model[pg] == refpvm.None {
			withdrawn++
		}
	}
	if len(specs) == 0 {
		return // every page call of the script is refused: nothing to look at
	}
	c := vGenMemProgramOn(r, specs)

	// outer machine and the real calls
	mem := &Memory{Pages: map[uint32]*Page{}}
	for p := uint32(0); p < vRWN; p++ {
		mem.Pages[vRW0/ZP+p] = &Page{Value: r.Bytes(ZP), Access: MemoryReadWrite}
	}
	outer, _ := DeBlobProgramCode(refpvm.EncodeBlob([]byte{0}, []bool{true}, nil, 1))
	add := HostCallArgs{RefineArgs: RefineArgs{IntegratedPVMMap: IntegratedPVMMap{}}, Program: &outer}
	gas := Gas(1_000_000)
	var regs Registers
	do := func(op OperationType) (uint64, bool) {
		var out OmegaOutput
		pn, msg, st := vh.Guard(func() {
			out = RefineOmegas[op](OmegaInput{Operation: op, VM: &VMState{Registers: &regs, Memory: mem, Gas: &gas}, Addition: add, HostCalls: RefineOmegas})
		})
		if pn {
			h.Viol("inner", ci, "", "go-panic-in-host-call", map[string]any{"op": opName(op), "panic": msg, "stack": st})
			return 0, false
		}
		if out.ExitReason != ExitContinue {
			h.Viol("inner", ci, "", "host-call-did-not-continue", map[string]any{"op": opName(op), "exit": out.ExitReason.String()})
			return 0, false
		}
		add = out.Addition
		return regs[7], true
	}
	copy(mem.Pages[vRW0/ZP].Value, c.Blob)
	if len(c.Blob) > ZP {
		return
	}
	regs[7], regs[8], regs[9] = vRW0, uint64(len(c.Blob)), 0
	n, ok := do(MachineOp)
	if !ok {
		return
	}
	if _, isErr := vErrCodes[n]; isErr {
		h.Viol("inner", ci, "", "machine-rejected-a-valid-program", map[string]any{"blob": vh.Hex(c.Blob), "w7": fmt.Sprintf("%#x", n)})
		return
	}
	for k, cl := range script {
		regs[7], regs[8], regs[9], regs[10] = n, cl.p, cl.c, cl.md
		if _, ok := do(PagesOp); !ok {
			return
		}
		// fill read-write pages with data through `poke` so that loads return something else than zero
		if cl.md == 2 && r.Bool() {
			src := uint64(vRW0 + ZP)
			regs[7], regs[8], regs[9], regs[10] = n, src, cl.p*ZP+uint64(r.IntN(ZP-64)), uint64(1+r.IntN(64))
			if _, ok := do(PokeOp); !ok {
				return
			}
		}
		_ = k
	}
	im, exists := add.RefineArgs.IntegratedPVMMap[n]
	if !exists {
		h.Viol("inner", ci, "", "machine-missing-after-creation", nil)
		return
	}
	// the page map the calls produced vs. the model (a page object marked inaccessible counts as no access)
	for _, pg := range tk {
		got := refpvm.None
		if pp, ok := im.Memory.Pages[pg]; ok {
			switch pp.Access {
			case MemoryReadOnly:
				got = refpvm.RO
			case MemoryReadWrite:
				got = refpvm.RW
			}
		}
		if got != model[pg] {
			h.Viol("inner", ci, "", "page-call-produced-another-access-than-specified", map[string]any{"page": pg, "got": int(got), "model": int(model[pg]), "script": fmt.Sprint(script)})
			return
		}
	}
	for pg, pp := range im.Memory.Pages {
		if !touched[pg] && pp.Access != MemoryInaccessible {
			h.Viol("inner", ci, "", "page-call-mapped-a-page-outside-its-range", map[string]any{"page": pg, "script": fmt.Sprint(script)})
			return
		}
	}
	engine := []string{"step", "block"}[ci%2]
	mk := func(g int64) (*vImpl, string) {
		prog, er := DeBlobProgramCode(append([]byte(nil), c.Blob...))
		if er != ExitContinue {
			return nil, "deblob-rejected"
		}
		v := &vImpl{prog: prog, engine: engine}
		cp := im.Memory
		cp.Pages = map[uint32]*Page{}
		for k, pp := range im.Memory.Pages {
			cp.Pages[k] = &Page{Value: append([]byte(nil), pp.Value...), Access: pp.Access}
		}
		v.interp = NewInterpreter(&v.prog, Registers(c.Regs), &cp, Gas(g))
		return v, ""
	}
	vFrameCheck(h, "inner", ci, c.Blob, 0, c.Regs, mk, int(c.Gas), 1<<20, 0, 0)
	h.Inc("inner_page_maps")
	h.Count("inner_pages_withdrawn", int64(withdrawn))
	if withdrawn > 0 {
		h.Inc("inner_page_maps_with_withdrawn_pages")
	}
	h.Distinct("inner", c.Blob, fmt.Sprint(script))
	if ci < 2 {
		h.Sample(map[string]any{"stratum": "inner", "page_calls": fmt.Sprint(script), "blob": vh.Hex(c.Blob)})
	}
}
