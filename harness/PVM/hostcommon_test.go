package PVM

// Shared plumbing of /verif's host-call monitors (C04 charge part, C07, C08, C09, C10): a generator of
// consistent accumulation contexts and guest memories, a logical projection of the context (X and Y)
// and a wrapper that calls one entry of the real omega tables and records pre/post observations.

import (
	"bytes"
	"crypto/sha256"
	"encoding/binary"
	"fmt"
	"math/big"
	"sort"

	"github.com/New-JAMneration/JAM-Protocol/internal/types"
	"github.com/New-JAMneration/JAM-Protocol/internal/utilities/hash"
	"github.com/New-JAMneration/JAM-Protocol/internal/utilities/merklization"
	"github.com/New-JAMneration/JAM-Protocol/internal/zzverif/refpvm"
	"github.com/New-JAMneration/JAM-Protocol/internal/zzverif/vh"
)

const (
	vRW0 = 0x20000 // 4 read-write pages 0x20000..0x23fff
	vRWN = 4
	vRO0 = 0x30000 // 1 read-only page
)

type vPlanted struct {
	svc    types.ServiceID
	lookup bool
	klen   int    // storage: key length
	z      uint32 // lookup: declared length
}

type vHC struct {
	add    HostCallArgs
	regs   Registers
	mem    *Memory
	gas    Gas
	caller types.ServiceID
	others []types.ServiceID
	// raw-pool entries planted by the generator (state key -> what it is)
	planted map[types.StateKey]vPlanted
	// interesting values for argument generation
	hashes [][32]byte // hashes that occur as preimage / lookup keys (and a few that do not)
	keys   [][]byte   // storage keys that occur (and a few that do not)
	// transferBias: half of the calls are transfers, most of them to an existing service with a small amount, so that
	// the call reaches its gas step (C04's charge stratum)
	transferBias bool
}

func vThreshold(items uint64, octets *big.Int, f uint64) *big.Int {
	t := vBig().SetUint64(uint64(types.BasicMinBalance))
	t.Add(t, vBig().Mul(big.NewInt(int64(types.AdditionalMinBalancePerItem)), vBig().SetUint64(items)))
	t.Add(t, vBig().Mul(big.NewInt(int64(types.AdditionalMinBalancePerOctet)), octets))
	t.Sub(t, vBig().SetUint64(f))
	if t.Sign() < 0 {
		t.SetInt64(0)
	}
	return t
}

// vGenAccount builds a consistent account; some storage / lookup entries live only in the raw pool.
func (c *vHC) genAccount(r vh.R, id types.ServiceID, kv *types.StateKeyVals, rich bool) types.ServiceAccount {
	a := types.ServiceAccount{PreimageLookup: types.PreimagesMapEntry{}, LookupDict: types.LookupMetaMapEntry{}, StorageDict: types.Storage{}}
	items, octets := uint64(0), uint64(0)
	ns := r.IntN(4)
	if !rich {
		ns = r.IntN(2)
	}
	for i := 0; i < ns; i++ {
		k := r.Bytes(1 + r.IntN(6))
		v := r.Bytes(r.IntN(40))
		if r.IntN(3) == 0 { // only in the raw pool
			e := merklization.WrapEncodeDelta2KeyVal(id, k, v)
			if _, dup := c.planted[e.Key]; dup {
				continue
			}
			if _, dup := a.StorageDict[string(k)]; dup { // one state key cannot be both parsed and unparsed
				continue
			}
			*kv = append(*kv, e)
			c.planted[e.Key] = vPlanted{svc: id, klen: len(k)}
		} else {
			if _, dup := a.StorageDict[string(k)]; dup {
				continue
			}
			if _, dup := c.planted[merklization.WrapEncodeDelta2KeyVal(id, k, nil).Key]; dup {
				continue
			}
			a.StorageDict[string(k)] = v
		}
		c.keys = append(c.keys, k)
		items++
		octets += 34 + uint64(len(k)) + uint64(len(v))
	}
	nl := r.IntN(4)
	for i := 0; i < nl; i++ {
		blob := r.Bytes(1 + r.IntN(30))
		hh := hash.Blake2bHash(blob)
		z := uint32(len(blob))
		var slots types.TimeSlotSet
		switch r.IntN(5) {
		case 0:
			slots = types.TimeSlotSet{} // solicited, not yet provided
		case 1:
			slots = types.TimeSlotSet{types.TimeSlot(r.IntN(50))}
			a.PreimageLookup[hh] = blob
		case 2:
			x := r.IntN(50)
			slots = types.TimeSlotSet{types.TimeSlot(x), types.TimeSlot(x + r.IntN(50))}
		case 3:
			x := r.IntN(30)
			slots = types.TimeSlotSet{types.TimeSlot(x), types.TimeSlot(x + 5), types.TimeSlot(x + 10 + r.IntN(30))}
			a.PreimageLookup[hh] = blob
		default:
			slots = types.TimeSlotSet{}
		}
		key := types.LookupMetaMapkey{Hash: hh, Length: types.U32(z)}
		if r.IntN(3) == 0 {
			e := merklization.EncodeDelta4KeyVal(id, key, slots)
			if _, dup := c.planted[e.Key]; dup {
				continue
			}
			if _, dup := a.LookupDict[key]; dup {
				continue
			}
			*kv = append(*kv, e)
			c.planted[e.Key] = vPlanted{svc: id, lookup: true, z: z}
		} else {
			if _, dup := c.planted[merklization.EncodeDelta4KeyVal(id, key, slots).Key]; dup {
				continue
			}
			if _, dup := a.LookupDict[key]; dup {
				continue
			}
			a.LookupDict[key] = slots
		}
		c.hashes = append(c.hashes, hh)
		items += 2
		octets += 81 + uint64(z)
	}
	a.ServiceInfo = types.ServiceInfo{Items: types.U32(items), Bytes: types.U64(octets), MinItemGas: types.Gas(r.IntN(20)), MinMemoGas: types.Gas(r.IntN(30)),
		CreationSlot: types.TimeSlot(r.IntN(10)), ParentService: types.ServiceID(r.IntN(5))}
	copy(a.ServiceInfo.CodeHash[:], r.Bytes(32))
	if r.IntN(4) == 0 {
		a.ServiceInfo.DepositOffset = types.U64(r.IntN(300))
	}
	th := vThreshold(items, vBig().SetUint64(octets), uint64(a.ServiceInfo.DepositOffset)).Uint64()
	switch r.IntN(8) {
	case 6: // already below its threshold (a state the protocol can be in: thresholds are only enforced when a call would raise them)
		a.ServiceInfo.Balance = types.U64(th - min(th, uint64(1+r.IntN(60))))
	case 7:
		if r.Bool() {
			a.ServiceInfo.Balance = types.U64(r.IntN(int(min(th, 1<<30)) + 1))
		} else {
			a.ServiceInfo.Balance = types.U64(th + uint64(r.IntN(5000)))
		}
	case 0:
		a.ServiceInfo.Balance = types.U64(th)
	case 1:
		a.ServiceInfo.Balance = types.U64(th + 1)
	case 2:
		a.ServiceInfo.Balance = types.U64(th + uint64(r.IntN(400)))
	case 3:
		a.ServiceInfo.Balance = types.U64(th + 1_000_000 + uint64(r.IntN(1000)))
	default:
		a.ServiceInfo.Balance = types.U64(th + uint64(r.IntN(5000)))
	}
	return a
}

// vNewHC generates one accumulation context and guest memory (parameters must be set: tiny mode).
func vNewHC(r vh.R) *vHC {
	c := &vHC{planted: map[types.StateKey]vPlanted{}}
	c.caller = types.ServiceID(70000 + r.IntN(5))
	if r.IntN(6) == 0 {
		c.caller = types.ServiceID(r.IntN(300)) // a low (registrar-range) id
	}
	kv := &types.StateKeyVals{}
	accounts := types.ServiceAccountState{}
	accounts[c.caller] = c.genAccount(r, c.caller, kv, true)
	for i := 0; i < r.IntN(4); i++ {
		id := types.ServiceID(80000 + r.IntN(6))
		if r.IntN(5) == 0 {
			id = types.ServiceID(r.IntN(300))
		}
		if _, ok := accounts[id]; ok {
			continue
		}
		var a types.ServiceAccount
		if r.IntN(3) != 0 {
			a = c.genAccount(r, id, kv, false)
		} else { // an ejectable child of the caller: code hash = E32(caller), 2 items
			a = types.ServiceAccount{PreimageLookup: types.PreimagesMapEntry{}, LookupDict: types.LookupMetaMapEntry{}, StorageDict: types.Storage{}}
			binary.LittleEndian.PutUint32(a.ServiceInfo.CodeHash[:], uint32(c.caller))
			var hh [32]byte
			copy(hh[:], r.Bytes(32))
			z := uint32(r.IntN(50))
			x := r.IntN(20)
			a.LookupDict[types.LookupMetaMapkey{Hash: hh, Length: types.U32(z)}] = types.TimeSlotSet{types.TimeSlot(x), types.TimeSlot(x + r.IntN(40))}
			a.ServiceInfo.Items, a.ServiceInfo.Bytes = 2, types.U64(81+z)
			a.ServiceInfo.Balance = types.U64(100 + 20 + 81 + uint64(z) + uint64(r.IntN(1000)))
			c.hashes = append(c.hashes, hh)
		}
		accounts[id] = a
		c.others = append(c.others, id)
	}
	for i := 0; i < 3; i++ {
		var hh [32]byte
		copy(hh[:], r.Bytes(32))
		c.hashes = append(c.hashes, hh)
		c.keys = append(c.keys, r.Bytes(1+r.IntN(6)))
	}
	ps := types.PartialStateSet{ServiceAccounts: accounts, ValidatorKeys: make(types.ValidatorsData, types.ValidatorsCount), Authorizers: make(types.AuthQueues, types.CoresCount),
		Assign: make(types.ServiceIDList, types.CoresCount), AlwaysAccum: types.AlwaysAccumulateMap{}}
	for i := range ps.Authorizers {
		ps.Authorizers[i] = make(types.AuthQueue, types.AuthQueueSize)
	}
	pick := func() types.ServiceID {
		if r.Bool() {
			return c.caller
		}
		return types.ServiceID(80000 + r.IntN(6))
	}
	ps.Bless, ps.Designate, ps.CreateAcct = pick(), pick(), pick()
	for i := range ps.Assign {
		ps.Assign[i] = pick()
	}
	slot := types.TimeSlot(40 + r.IntN(100))
	var eta types.Entropy
	copy(eta[:], r.Bytes(32))

	// same wiring as Psi_A
	newPS := ps.DeepCopy()
	newKV := kv.DeepCopy()
	acct := newPS.ServiceAccounts[c.caller]
	sid := c.caller
	c.add = HostCallArgs{
		GeneralArgs: GeneralArgs{ServiceAccount: &acct, ServiceID: &sid, ServiceAccountState: &newPS.ServiceAccounts, StorageKeyVal: &newKV},
		AccumulateArgs: AccumulateArgs{
			ResultContextX: I(newPS, c.caller, slot, eta, &newKV),
			ResultContextY: I(ps, c.caller, slot, eta, kv),
			Eta:            eta,
			Timeslot:       slot,
		},
		RefineArgs: RefineArgs{IntegratedPVMMap: IntegratedPVMMap{}, ExtrinsicDataMap: ExtrinsicDataMap{}},
	}
	c.add.RefineArgs.TimeSlot = slot
	if r.Bool() {
		// an inner machine that exists from the start, with a mixed page map (16 read-write, 17 read-only, 18 absent, 19 read-write):
		// pages / peek / poke / invoke calls then meet partially mapped ranges without first having to build them
		pages := map[uint32]*Page{
			16: {Value: r.Bytes(ZP), Access: MemoryReadWrite},
			17: {Value: r.Bytes(ZP), Access: MemoryReadOnly},
			19: {Value: r.Bytes(ZP), Access: MemoryReadWrite},
		}
		c.add.IntegratedPVMMap[0] = IntegratedPVMType{ProgramCode: ProgramCode(refpvm.EncodeBlob([]byte{0}, []bool{true}, nil, 1)), Memory: Memory{Pages: pages}, PC: 0}
	}

	c.mem = &Memory{Pages: map[uint32]*Page{}}
	for p := uint32(0); p < vRWN; p++ {
		c.mem.Pages[vRW0/ZP+p] = &Page{Value: r.Bytes(ZP), Access: MemoryReadWrite}
	}
	c.mem.Pages[vRO0/ZP] = &Page{Value: r.Bytes(ZP), Access: MemoryReadOnly}
	c.gas = Gas(1000 + r.IntN(100000))
	return c
}

func (c *vHC) poke(addr uint64, b []byte) {
	for i, x := range b {
		a := addr + uint64(i)
		if p, ok := c.mem.Pages[uint32(a/ZP)]; ok {
			p.Value[a%ZP] = x
		}
	}
}

// place puts b somewhere readable (RW or RO page) and returns its address.
func (c *vHC) place(r vh.R, b []byte) uint64 {
	var addr uint64
	if r.IntN(4) == 0 && len(b) <= ZP {
		addr = vRO0 + uint64(r.IntN(ZP-len(b)+1))
	} else {
		addr = vRW0 + uint64(r.IntN(vRWN*ZP-len(b)+1))
	}
	c.poke(addr, b)
	return addr
}

// ---- logical projection -------------------------------------------------------------------------

func vProjectCtx(rc *ResultContext) map[string]string {
	out := map[string]string{}
	put := func(k string, v []byte) {
		s := sha256.Sum256(v)
		out[k] = fmt.Sprintf("%d:%x", len(v), s[:8])
	}
	kvmap := map[types.StateKey][]byte{}
	if rc.StorageKeyVal != nil {
		for _, e := range *rc.StorageKeyVal {
			kvmap[e.Key] = e.Value
		}
	}
	for id, a := range rc.PartialState.ServiceAccounts {
		put(fmt.Sprintf("acct/%d/info", id), []byte(fmt.Sprintf("%+v", a.ServiceInfo)))
		for k, v := range a.StorageDict {
			e := merklization.WrapEncodeDelta2KeyVal(id, types.ByteSequence(k), v)
			kvmap[e.Key] = v
		}
		for k, v := range a.LookupDict {
			e := merklization.EncodeDelta4KeyVal(id, k, v)
			kvmap[e.Key] = e.Value
		}
		for hh, blob := range a.PreimageLookup {
			put(fmt.Sprintf("pre/%d/%x", id, hh[:8]), blob)
		}
	}
	for k, v := range kvmap {
		put(fmt.Sprintf("kv/%x", k[:]), v)
	}
	ps := rc.PartialState
	put("priv", []byte(fmt.Sprintf("%d|%v|%d|%d|%v", ps.Bless, ps.Assign, ps.Designate, ps.CreateAcct, sortedAlways(ps.AlwaysAccum))))
	put("queues", []byte(fmt.Sprintf("%x", ps.Authorizers)))
	put("validators", []byte(fmt.Sprintf("%x", ps.ValidatorKeys)))
	put("transfers", []byte(fmt.Sprintf("%+v", rc.DeferredTransfers)))
	if rc.Exception != nil {
		put("yield", rc.Exception[:])
	}
	var bl []string
	for _, b := range rc.ServiceBlobs {
		bl = append(bl, fmt.Sprintf("%d:%x", b.ServiceID, b.Blob))
	}
	sort.Strings(bl)
	put("provided", []byte(fmt.Sprint(bl)))
	put("nextid", []byte(fmt.Sprint(rc.ImportServiceID)))
	return out
}

func sortedAlways(m types.AlwaysAccumulateMap) string {
	var ks []int
	for k := range m {
		ks = append(ks, int(k))
	}
	sort.Ints(ks)
	s := ""
	for _, k := range ks {
		s += fmt.Sprintf("%d=%d,", k, m[types.ServiceID(k)])
	}
	return s
}

func vProjDiff(a, b map[string]string) string {
	var ks []string
	for k := range a {
		if b[k] != a[k] {
			ks = append(ks, k)
		}
	}
	for k := range b {
		if _, ok := a[k]; !ok {
			ks = append(ks, k)
		}
	}
	sort.Strings(ks)
	if len(ks) > 4 {
		ks = append(ks[:4], "…")
	}
	return fmt.Sprint(ks)
}

// ---- observation of one call -----------------------------------------------------------------------

type vObs struct {
	op               OperationType
	regs0, regs1     Registers
	gas0, gas1       Gas
	mem0             map[uint32][]byte
	memChanged       [][2]uint64 // changed byte ranges [lo,hi)
	projX0, projX1   map[string]string
	projY0, projY1   map[string]string
	exit             ExitReason
	goPanic, goStack string
	machines0        string
	machines1        string
}

func vSnapMem(m *Memory) map[uint32][]byte {
	out := map[uint32][]byte{}
	for k, p := range m.Pages {
		out[k] = append([]byte(nil), p.Value...)
	}
	return out
}

func vMemRanges(before map[uint32][]byte, m *Memory) (out [][2]uint64, pagesChanged bool) {
	var keys []uint32
	for k := range m.Pages {
		keys = append(keys, k)
		if _, ok := before[k]; !ok {
			pagesChanged = true
		}
	}
	if len(before) != len(m.Pages) {
		pagesChanged = true
	}
	sort.Slice(keys, func(i, j int) bool { return keys[i] < keys[j] })
	for _, k := range keys {
		b, ok := before[k]
		if !ok {
			continue
		}
		v := m.Pages[k].Value
		if bytes.Equal(b, v) {
			continue
		}
		for i := 0; i < len(v); i++ {
			if i < len(b) && b[i] != v[i] {
				a := uint64(k)*ZP + uint64(i)
				if n := len(out); n > 0 && out[n-1][1] == a {
					out[n-1][1] = a + 1
				} else {
					out = append(out, [2]uint64{a, a + 1})
				}
			}
		}
	}
	return
}

func vMachinesDigest(m IntegratedPVMMap) string {
	var ks []uint64
	for k := range m {
		ks = append(ks, k)
	}
	sort.Slice(ks, func(i, j int) bool { return ks[i] < ks[j] })
	h := sha256.New()
	for _, k := range ks {
		im := m[k]
		fmt.Fprintf(h, "%d|%d|%x|", k, im.PC, im.ProgramCode)
		var ps []uint32
		for p := range im.Memory.Pages {
			ps = append(ps, p)
		}
		sort.Slice(ps, func(i, j int) bool { return ps[i] < ps[j] })
		for _, p := range ps {
			fmt.Fprintf(h, "%d:%d:%x|", p, im.Memory.Pages[p].Access, sha256.Sum256(im.Memory.Pages[p].Value))
		}
	}
	return fmt.Sprintf("%d:%x", len(ks), h.Sum(nil)[:8])
}

// call invokes one entry of an omega table on the context and records the observation.
func (c *vHC) call(table Omegas, op OperationType) vObs {
	o := vObs{op: op, regs0: c.regs, gas0: c.gas}
	o.mem0 = vSnapMem(c.mem)
	o.projX0, o.projY0 = vProjectCtx(&c.add.ResultContextX), vProjectCtx(&c.add.ResultContextY)
	o.machines0 = vMachinesDigest(c.add.IntegratedPVMMap)
	omega := getOmega(table, op)
	if omega == nil {
		omega = hostCallException
	}
	var out OmegaOutput
	p, msg, st := vh.Guard(func() {
		out = omega(OmegaInput{Operation: op, VM: &VMState{Registers: &c.regs, Memory: c.mem, Gas: &c.gas}, Addition: c.add, HostCalls: table})
	})
	if p {
		o.goPanic, o.goStack = msg, st
	} else {
		o.exit = out.ExitReason
		if out.ExitReason == ExitContinue {
			c.add = out.Addition // as Host.HostCall does
		}
	}
	o.regs1, o.gas1 = c.regs, c.gas
	o.memChanged, _ = vMemRanges(o.mem0, c.mem)
	o.projX1, o.projY1 = vProjectCtx(&c.add.ResultContextX), vProjectCtx(&c.add.ResultContextY)
	o.machines1 = vMachinesDigest(c.add.IntegratedPVMMap)
	return o
}

func (c *vHC) readable(addr, n uint64) bool { return isReadableModel(c.mem, addr, n, false) }
func (c *vHC) writable(addr, n uint64) bool { return isReadableModel(c.mem, addr, n, true) }

// isReadableModel: independent range check on the page map (n == 0 is always fine).
func isReadableModel(m *Memory, addr, n uint64, write bool) bool {
	if n == 0 {
		return true
	}
	if n > 1<<32 || addr >= 1<<32 || addr+n > 1<<32 {
		return false
	}
	for p := addr / ZP; p <= (addr+n-1)/ZP; p++ {
		pg, ok := m.Pages[uint32(p)]
		if !ok || pg.Access == MemoryInaccessible || (write && pg.Access != MemoryReadWrite) {
			return false
		}
	}
	return true
}

// vGenAddr: an address near the edges of the mapped ranges (readable, read-only, unmapped, huge).
func (c *vHC) genAddr(r vh.R, n uint64) uint64 {
	switch r.IntN(10) {
	case 0:
		return vRW0 + vRWN*ZP - n + uint64(r.IntN(3)) - 1 // end of the RW run -1..+1
	case 1:
		return vRW0 - 1 + uint64(r.IntN(3))
	case 2:
		return vRO0 + uint64(r.IntN(ZP))
	case 3:
		return vRO0 + ZP - n + uint64(r.IntN(3)) - 1
	case 4:
		return r.U64()
	case 5:
		return uint64(r.IntN(1 << 16))
	default:
		if n >= vRWN*ZP {
			return vRW0
		}
		return vRW0 + uint64(r.IntN(int(vRWN*ZP-n)))
	}
}

func vAccountWithCode(code []byte) (types.ServiceAccount, types.OpaqueHash) {
	hh := hash.Blake2bHash(code)
	return types.ServiceAccount{
		ServiceInfo:    types.ServiceInfo{CodeHash: hh, Balance: 1 << 40, MinItemGas: 10, MinMemoGas: 10},
		PreimageLookup: types.PreimagesMapEntry{hh: code},
		LookupDict:     types.LookupMetaMapEntry{{Hash: hh, Length: types.U32(len(code))}: {0}},
		StorageDict:    types.Storage{},
	}, hh
}

// vBig: package PVM declares a function called `new` (the host call), which shadows the builtin.
func vBig() *big.Int { return &big.Int{} }
