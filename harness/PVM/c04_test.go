package PVM

import (
	"fmt"
	"testing"

	"github.com/New-JAMneration/JAM-Protocol/internal/types"
	"github.com/New-JAMneration/JAM-Protocol/internal/zzverif/refpvm"
	"github.com/New-JAMneration/JAM-Protocol/internal/zzverif/vh"
)

// vModelMemFromImpl converts the implementation's page map into the model's (used where the layout
// itself is not under test, e.g. after SingleInitializer in C04).
func vModelMemFromImpl(m *Memory) refpvm.Mem {
	out := refpvm.Mem{}
	for k, p := range m.Pages {
		q := &refpvm.Page{}
		copy(q.Data[:], p.Value)
		switch p.Access {
		case MemoryReadOnly:
			q.Acc = refpvm.RO
		case MemoryReadWrite:
			q.Acc = refpvm.RW
		}
		out[k] = q
	}
	return out
}

func TestVerifC04(t *testing.T) {
	h := vh.Open(t, "C04")
	defer h.Done()

	// ---- part A: every gas limit 0..S+1 on the raw engine -------------------------------------
	n := h.N(3000, 60000)
	for i := 0; i < n; i++ {
		if !h.Mine("limits", i) {
			continue
		}
		h.CaseLight("limits", i)
		r := h.Rng("limits", i)
		c := refpvm.GenCompilerLike(r, vHostIDs)
		mp, ok := refpvm.Deblob(c.Blob)
		if !ok {
			continue
		}
		// S = steps to the first exit with plenty of gas
		probe := &refpvm.State{PC: c.PC, Gas: 400, Regs: c.Regs, Mem: refpvm.BuildMem(c.Pages)}
		e0, S, _ := mp.Run(probe, 400)
		if e0.Kind == refpvm.Unmodelled || probe.Wrapped || probe.JumpBeyond || probe.OffMask {
			h.Inc("not_judged")
			continue
		}
		if e0.Kind == refpvm.OOG || e0.Kind == refpvm.Continue {
			S = 300 // looping program: every limit up to 300 ends out-of-gas strictly inside the program
			h.Inc("programs_looping")
		}
		oogInside := 0
		for g := int64(0); g <= int64(S)+1; g++ {
			ms := &refpvm.State{PC: c.PC, Gas: g, Regs: c.Regs, Mem: refpvm.BuildMem(c.Pages)}
			me, _, done := mp.Run(ms, 5000)
			if !done {
				break
			}
			// both engines: the block engine (top-level invocations) and the step engine (inner machines: its counter is what
			// `invoke` writes back into the caller's memory)
			engine := []string{"block", "step"}[i%2]
			iv, status, _ := vNewImpl(c.Blob, g, c.Regs, c.Pages, engine)
			if status != "" {
				h.Viol("limits", i, "", "load-failed", map[string]any{"status": status, "blob": vh.Hex(c.Blob)})
				break
			}
			ie, ipc, gp, st := iv.run(c.PC)
			d := ""
			if gp != "" {
				d = "go panic: " + gp + " " + st
			} else {
				d = vCompare(mp, me, ms, ie, ipc, iv, engine)
			}
			if d != "" {
				det := vCaseDetail(c)
				det["limit"], det["divergence"], det["steps_to_exit"] = g, d, S
				det["model_exit"] = fmt.Sprintf("%s pc=%d gas=%d", me.Kind, ms.PC, ms.Gas)
				h.Viol("limits", i, "", "state-at-gas-limit-differs", det)
				break
			}
			if me.Kind == refpvm.OOG {
				oogInside++
				if ms.Gas != 0 {
					h.Viol("limits", i, "", "MODEL-BUG gas at OOG", map[string]any{"gas": ms.Gas})
				}
			}
			h.Inc("limit_runs")
			h.Inc("limit_runs_" + engine)
		}
		h.Count("oog_strictly_inside", int64(oogInside))
		if S >= 2 {
			h.Distinct(c.Blob)
		}
		if i < 2 {
			h.Sample(map[string]any{"blob": vh.Hex(c.Blob), "steps_to_exit": S, "limits_tried": S + 2})
		}
	}

	// ---- part C: charges of the REAL host calls (10 each; transfer 10 + l, out-of-gas iff the gas cannot pay) ------
	nh := h.N(8000, 150000)
	for i := 0; i < nh; i++ {
		if !h.Mine("hostcharge", i) {
			continue
		}
		h.CaseLight("hostcharge", i)
		vRunHostSequence(h, "hostcharge", i, h.Rng("hostcharge", i), vMonitors{charge: true, transferBias: i%2 == 0})
		h.Distinct("hostcharge", i)
	}

	// ---- part D: a host call the remaining gas cannot pay for, through Psi_H -------------------------------------------
	// `ecalli id; trap` with every limit 1..14, id known / unknown / defined in the other table only. The ecalli instruction costs
	// 1, the call 10: with fewer than 10 units left the invocation ends out-of-gas, nothing else changes, and the gas it reports
	// as used is the whole limit (the machine's counter must not stay positive: GP u = ϱ - max(ϱ', 0)).
	no := h.N(1500, 30000)
	for i := 0; i < no; i++ {
		if !h.Mine("hostoog", i) {
			continue
		}
		h.CaseLight("hostoog", i)
		r := h.Rng("hostoog", i)
		table, tname := AccumulateOmegas, "accumulate"
		if r.Bool() {
			table, tname = RefineOmegas, "refine"
		}
		id := []uint64{uint64(r.IntN(27)), 100, uint64(27 + r.IntN(73)), uint64(101 + r.IntN(155)), uint64(256 + r.IntN(1<<20))}[r.IntN(5)]
		known := id < uint64(len(table)) && table[id] != nil
		if id == uint64(TransferOp) || id == uint64(LogOp) { // transfer charges 10 + l, log is free: other rules
			continue
		}
		a := &refpvm.Asm{}
		a.Label()
		a.Ecalli(id, refpvm.ImmLen(id))
		a.Trap()
		limit := Gas(1 + i%14)
		c := vNewHC(r)
		for k := range c.regs {
			c.regs[k] = r.U64()
		}
		regs0 := c.regs
		px0 := vProjectCtx(&c.add.ResultContextX)
		mem0 := vSnapMem(c.mem)
		var res Psi_H_ReturnType
		pn, msg, st := vh.Guard(func() {
			prog, er := DeBlobProgramCode(a.Blob(nil, 1))
			if er != ExitContinue {
				panic("deblob")
			}
			c.add.Program = &prog
			res = NewHost(&prog, c.regs, c.mem, limit, c.add, table).HostCall(0, 0)
		})
		d := map[string]any{"id": id, "table": tname, "known": known, "limit": limit}
		if pn {
			d["panic"], d["stack"] = msg, st
			h.Viol("hostoog", i, "", "host call with little gas: go panic", d)
			continue
		}
		left := int64(limit) - 1 // after the ecalli instruction itself
		d["exit"], d["gas_after"] = res.ExitReason.String(), int64(*res.VM.Gas)
		if left < 10 {
			ch, _ := vMemRanges(mem0, c.mem)
			used := int64(limit) - max(int64(*res.VM.Gas), 0)
			switch {
			case res.ExitReason.GetReasonType() != OUT_OF_GAS:
				h.Viol("hostoog", i, "", "charge: host call not out-of-gas although fewer than 10 units were left", d)
			case used != int64(limit):
				d["reported_used"] = used
				h.Viol("hostoog", i, "", "charge: an invocation that ran out of gas in a host call reports less than its limit as used", d)
			case *res.VM.Registers != regs0 || len(ch) > 0 || vProjDiff(px0, vProjectCtx(&res.Addition.ResultContextX)) != "[]":
				h.Viol("hostoog", i, "", "charge: out-of-gas host call had effects", d)
			}
			h.Inc("host_calls_the_gas_could_not_pay_for")
		} else if left == 10 {
			// the call is paid with the last unit; the trap behind it cannot be: out-of-gas one step later
			if rt := res.ExitReason.GetReasonType(); (rt != OUT_OF_GAS && rt != PANIC) || *res.VM.Gas != 0 { // (PANIC: the call itself panicked on its random arguments)
				h.Viol("hostoog", i, "", "charge: a host call paid with the last 10 units must leave exactly 0 and stop there or at the next instruction", d)
			}
			h.Inc("host_calls_paid_with_the_last_units")
		} else if res.ExitReason.GetReasonType() == OUT_OF_GAS {
			h.Viol("hostoog", i, "", "charge: out-of-gas although more than 10 units were left for the host call", d)
		} else {
			h.Inc("host_calls_the_gas_could_just_pay_for")
		}
		h.Distinct("hostoog", id, tname, int(limit))
	}

	// ---- part B: reported gas usage of Psi_M, including limits >= 2^63 -------------------------
	bigLimits := []uint64{1 << 31, 1 << 32, 1 << 62, 1<<63 - 1, 1 << 63, 1<<63 + 1, 1<<64 - 1}
	nm := h.N(3000, 50000)
	for i := 0; i < nm; i++ {
		if !h.Mine("psim", i) {
			continue
		}
		h.CaseLight("psim", i)
		r := h.Rng("psim", i)
		c := refpvm.GenCompilerLike(r, []uint64{0, 3, 17, 100, 300})
		arg := r.Bytes(r.IntN(40))
		std := refpvm.StdBlob(r.Bytes(r.IntN(5000)), r.Bytes(r.IntN(5000)), uint16(r.IntN(3)), uint32(r.IntN(9000)), c.Blob)
		// initial state as the initialiser produces it (its layout is C06's subject)
		_, regs0, mem0, er := SingleInitializer(StandardCodeFormat(std), Argument(arg))
		if er != ExitContinue {
			h.Viol("psim", i, "", "initializer-rejects-wellformed-program", map[string]any{"std": vh.Hex(std[:min(64, len(std))])})
			continue
		}
		mp, ok := refpvm.Deblob(c.Blob)
		if !ok {
			continue
		}
		var limits []uint64
		for k := 0; k < 4; k++ {
			limits = append(limits, uint64(r.IntN(150)))
		}
		limits = append(limits, bigLimits[r.IntN(len(bigLimits))], bigLimits[r.IntN(len(bigLimits))])
		for _, g := range limits {
			// model
			mg := int64(min(g, 1<<62))
			ms := &refpvm.State{PC: 0, Gas: mg, Regs: [13]uint64(regs0), Mem: vModelMemFromImpl(&mem0)}
			var me refpvm.Exit
			judged := true
			for seg := 0; seg < 64; seg++ {
				var done bool
				me, _, done = mp.Run(ms, 20000)
				if !done || me.Kind == refpvm.Unmodelled || ms.Wrapped || ms.JumpBeyond || ms.OffMask {
					judged = false
					break
				}
				if me.Kind != refpvm.Host {
					break
				}
				ms.Gas -= 10
				if ms.Gas < 0 {
					me = refpvm.Exit{Kind: refpvm.OOG}
					break
				}
				ms.Regs[7] = me.Arg + 7
				ms.PC = mp.NextPC(ms.PC)
			}
			if !judged || me.Kind == refpvm.Host {
				h.Inc("not_judged")
				continue
			}
			wantUsed := uint64(mg - max(ms.Gas, 0))
			if g > 1<<62 && me.Kind == refpvm.OOG {
				h.Inc("not_judged") // the model cannot run 2^62 steps; never happens for terminating programs
				continue
			}
			omegas := make(Omegas, 400)
			for k := range omegas {
				k := k
				omegas[k] = func(in OmegaInput) OmegaOutput {
					*in.VM.Gas -= 10
					if *in.VM.Gas < 0 {
						return OmegaOutput{ExitReason: ExitOOG, Addition: in.Addition}
					}
					in.VM.Registers[7] = uint64(k) + 7
					return OmegaOutput{ExitReason: ExitContinue, Addition: in.Addition}
				}
			}
			var res Psi_M_ReturnType
			p, msg, st := vh.Guard(func() { res = Psi_M(StandardCodeFormat(std), 0, types.Gas(g), Argument(arg), omegas, HostCallArgs{}) })
			det := map[string]any{"limit": g, "std_len": len(std), "program": vh.Hex(c.Blob), "model_exit": me.Kind.String(), "model_used": wantUsed}
			if p {
				det["panic"], det["stack"] = msg, st
				h.Viol("psim", i, "", "go-panic-in-Psi_M", det)
				continue
			}
			used := uint64(res.Gas)
			det["used"], det["result"] = used, fmt.Sprintf("%v", res.ReasonOrBytes)
			kind := "bytes"
			switch v := res.ReasonOrBytes.(type) {
			case ExitReasonType:
				if v == OUT_OF_GAS {
					kind = "oog"
				} else {
					kind = "panic"
				}
			case nil:
				kind = "bytes"
			}
			wantKind := map[refpvm.ExitKind]string{refpvm.Halt: "bytes", refpvm.Panic: "panic", refpvm.Fault: "panic", refpvm.OOG: "oog"}[me.Kind]
			switch {
			case used > g:
				h.Viol("psim", i, "", "gas-used-exceeds-limit", det)
			case kind != wantKind:
				h.Viol("psim", i, "", "invocation-result-differs", det)
			case used != wantUsed:
				h.Viol("psim", i, "", "gas-used-differs-from-model", det)
			}
			h.Inc("psim_runs")
			if g >= 1<<63 {
				h.Inc("psim_limits_ge_2^63")
			}
			h.Inc("psim_exit_" + wantKind)
		}
		h.Distinct(c.Blob, len(std))
	}
}
