package PVM

import "github.com/New-JAMneration/JAM-Protocol/internal/zzverif/refpvm"

// vClassifyC01 evaluates the named known-finding predicates (input_class AND divergence) of
// known_findings.json on a concrete diverging case. "" = no listed class matches.
func vClassifyC01(stratum, class string, d map[string]any, c refpvm.Case) string {
	return ""
}
