package PVM

import (
	"bytes"
	"os"
	"testing"

	"github.com/New-JAMneration/JAM-Protocol/internal/types"
	"github.com/New-JAMneration/JAM-Protocol/internal/zzverif/refpvm"
	"github.com/New-JAMneration/JAM-Protocol/internal/zzverif/vh"
)

// FuzzVerifC03 is the coverage-guided part of C03 (thorough tier): Go's native fuzzer mutates a byte string that is fed to
// every loading / running entry point. A Go runtime panic fails the target (the fuzzer then writes the input to
// testdata/fuzz under the CURRENT directory, which the runner sets to a scratch directory, never /repo).
func FuzzVerifC03(f *testing.F) {
	if os.Getenv("VERIF_CHECK") != "C03" {
		f.Skip("verif harness: not selected")
	}
	types.SetTinyMode()
	r := vh.NewR(1, 3)
	for i := 0; i < 24; i++ {
		b := vSeedBlob(r)
		f.Add(b, uint8(i), uint16(r.IntN(10001)))
		f.Add(refpvm.StdBlob(r.Bytes(r.IntN(40)), r.Bytes(r.IntN(40)), uint16(r.IntN(2)), uint32(r.IntN(5000)), b), uint8(i), uint16(r.IntN(10001)))
	}
	f.Add(vWrapHeaderBlob(r), uint8(5), uint16(100))
	targets := vTargets()
	f.Fuzz(func(t *testing.T, b []byte, sel uint8, gas uint16) {
		if len(b) > 1<<16 {
			return
		}
		if bytes.IndexByte(b, 101) >= 0 {
			// opcode 101 (sbrk) is the subject of the open finding C03-F2 (one instruction maps up to 4 GiB eagerly): a fuzzing
			// worker that meets it dies of memory exhaustion and the coordinator cannot say on which input. Like the clean strata of
			// the structured part, this part stays clear of the open finding; sbrk has its own trigger stratum.
			return
		}
		tg := targets[int(sel)%len(targets)]
		rr := vh.NewR(uint64(gas), uint64(sel))
		eb := make([]byte, len(b)) // the fuzzing engine's buffers have spare capacity: hand the parser one without
		copy(eb, b)
		if pn, msg, st := vh.Guard(func() { tg.run(eb, rr) }); pn {
			t.Fatalf("go runtime panic in %s: %s [%s]", tg.name, msg, st)
		}
	})
}
