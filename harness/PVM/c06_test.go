package PVM

import (
	"bytes"
	"fmt"
	"testing"

	"github.com/New-JAMneration/JAM-Protocol/internal/zzverif/refpvm"
	"github.com/New-JAMneration/JAM-Protocol/internal/zzverif/vh"
)

type vLayoutPage struct {
	acc  MemoryAccess
	data []byte // nil = zero page
}

// vModelLayout: the GP A.7 memory map as page number -> expected page.
func vModelLayout(o, w []byte, z uint16, s uint32, a []byte) map[uint32]vLayoutPage {
	const zz, zi, zp = 1 << 16, 1 << 24, 1 << 12
	Zf := func(x uint64) uint64 { return zz * ((x + zz - 1) / zz) }
	Pf := func(x uint64) uint64 { return zp * ((x + zp - 1) / zp) }
	out := map[uint32]vLayoutPage{}
	put := func(start uint64, data []byte, total uint64, acc MemoryAccess) {
		for off := uint64(0); off < total; off += zp {
			pg := make([]byte, zp)
			if off < uint64(len(data)) {
				copy(pg, data[off:])
			}
			out[uint32((start+off)/zp)] = vLayoutPage{acc: acc, data: pg}
		}
	}
	put(zz, o, Pf(uint64(len(o))), MemoryReadOnly)
	put(2*zz+Zf(uint64(len(o))), w, Pf(uint64(len(w)))+uint64(z)*zp, MemoryReadWrite)
	stackEnd := uint64(1<<32 - 2*zz - zi)
	put(stackEnd-Pf(uint64(s)), nil, Pf(uint64(s)), MemoryReadWrite)
	put(1<<32-zz-zi, a, Pf(uint64(len(a))), MemoryReadOnly)
	return out
}

func TestVerifC06(t *testing.T) {
	h := vh.Open(t, "C06")
	defer h.Done()
	sizes := []int{0, 1, 4095, 4096, 4097, 8191, 8192, 65535, 65536, 65537}
	zs := []uint16{0, 1, 15, 16, 17, 255}
	n := h.N(3000, 60000)
	for i := 0; i < n; i++ {
		if !h.Mine("layout", i) {
			continue
		}
		h.CaseLight("layout", i)
		r := h.Rng("layout", i)
		pick := func() int {
			if r.IntN(4) == 0 {
				return r.IntN(70000)
			}
			return sizes[r.IntN(len(sizes))]
		}
		oL, wL, sL, aL := pick(), pick(), pick(), pick()
		if h.Thorough() && r.IntN(200) == 0 {
			oL = 1<<24 - 1 - r.IntN(3)
		}
		if r.IntN(100) == 0 {
			aL = 1<<24 - r.IntN(3) // the argument fills the input zone exactly (ZI), or lacks one or two octets
			h.Inc("layouts_with_an_argument_of_about_the_input_zone_size")
		}
		z := zs[r.IntN(len(zs))]
		if h.Thorough() && r.IntN(300) == 0 {
			z = 65535
		}
		o, w, a := r.Bytes(oL), r.Bytes(wL), r.Bytes(aL)
		code := r.Bytes(r.IntN(50))
		std := refpvm.StdBlob(o, w, z, uint32(sL), code)
		d := map[string]any{"o": oL, "w": wL, "z": z, "s": sL, "a": aL}
		var c Instructions
		var regs Registers
		var mem Memory
		var er ExitReason
		if p, msg, st := vh.Guard(func() { c, regs, mem, er = SingleInitializer(StandardCodeFormat(std), Argument(a)) }); p {
			d["panic"], d["stack"] = msg, st
			h.Viol("layout", i, "", "initializer-go-panic", d)
			continue
		}
		if er != ExitContinue {
			h.Viol("layout", i, "", "initializer-rejects-valid-program", d)
			continue
		}
		if !bytes.Equal(c, code) {
			h.Viol("layout", i, "", "returned-code-differs", d)
		}
		want := vModelLayout(o, w, z, uint32(sL), a)
		bad := ""
		for k, wp := range want {
			gp, ok := mem.Pages[k]
			switch {
			case !ok:
				bad = fmt.Sprintf("page %d (%#x) missing", k, uint64(k)*ZP)
			case gp.Access != wp.acc:
				bad = fmt.Sprintf("page %d (%#x) access %d, model %d", k, uint64(k)*ZP, gp.Access, wp.acc)
			case !bytes.Equal(gp.Value, wp.data):
				bad = fmt.Sprintf("page %d (%#x) content differs", k, uint64(k)*ZP)
			}
			if bad != "" {
				break
			}
		}
		if bad == "" {
			for k, gp := range mem.Pages {
				if _, ok := want[k]; !ok {
					bad = fmt.Sprintf("extra page %d (%#x) access %d", k, uint64(k)*ZP, gp.Access)
					break
				}
			}
		}
		if bad != "" {
			d["why"] = bad
			fid := ""
			h.Viol("layout", i, fid, "memory-map-differs-from-A.7", d)
		}
		var wr Registers
		wr[0], wr[1], wr[7], wr[8] = 1<<32-1<<16, 1<<32-2*(1<<16)-(1<<24), 1<<32-(1<<16)-(1<<24), uint64(aL)
		if regs != wr {
			d["regs"] = fmt.Sprintf("%x", regs)
			h.Viol("layout", i, "", "initial-registers-differ", d)
		}
		h.Inc("layouts")
		if aL >= 4096 {
			h.Inc("layouts_arg_ge_one_page")
		}
		h.Distinct(oL, wL, int(z), sL, aL)
		if i < 2 {
			h.Sample(d)
		}
	}

	// every proper prefix of small valid blobs must be rejected
	np := h.N(200, 3000)
	for i := 0; i < np; i++ {
		if !h.Mine("prefix", i) {
			continue
		}
		h.CaseLight("prefix", i)
		r := h.Rng("prefix", i)
		std := refpvm.StdBlob(r.Bytes(r.IntN(20)), r.Bytes(r.IntN(20)), uint16(r.IntN(3)), uint32(r.IntN(9000)), r.Bytes(1+r.IntN(20)))
		for cut := 0; cut < len(std); cut++ {
			var er ExitReason
			if p, msg, st := vh.Guard(func() { _, _, _, er = SingleInitializer(StandardCodeFormat(std[:cut]), nil) }); p {
				h.Viol("prefix", i, "", "initializer-go-panic", map[string]any{"cut": cut, "panic": msg, "stack": st})
				break
			}
			if er == ExitContinue {
				h.Viol("prefix", i, "", "truncated-program-accepted", map[string]any{"cut": cut, "len": len(std), "blob": vh.Hex(std)})
				break
			}
			h.Inc("prefixes_rejected")
		}
		h.Distinct("p", std)
	}
}
