package PVM

import (
	"encoding/binary"
	"fmt"
	"os"
	"runtime"
	"testing"
	"time"

	"github.com/New-JAMneration/JAM-Protocol/internal/types"
	"github.com/New-JAMneration/JAM-Protocol/internal/zzverif/refpvm"
	"github.com/New-JAMneration/JAM-Protocol/internal/zzverif/vh"
)

// ---- byte-string generator ------------------------------------------------------------------

var vLenSubst = []uint64{0, 1, 0x7F, 0x80, 0xFF, 0x100, 0xFFFF, 0x10000, 1<<24 - 1, 1 << 24, 1<<32 - 1, 1 << 32, 1 << 56, 1<<64 - 1}

// vSeedBlob returns a valid inner-machine style program blob (deblob format).
func vSeedBlob(r vh.R) []byte {
	if r.IntN(3) == 0 {
		return vHostileCase(r).Blob
	}
	return refpvm.GenCompilerLike(r, []uint64{0, 1, 8, 12, 100}).Blob
}

// vMutate derives an untrusted byte string from a valid one.
func vMutate(r vh.R, b []byte, k int) []byte {
	out := append([]byte(nil), b...)
	switch k % 8 {
	case 0: // as is
	case 1: // truncation
		if len(out) > 0 {
			out = out[:r.IntN(len(out))]
		}
	case 2: // bit flips
		for n := 1 + r.IntN(3); n > 0 && len(out) > 0; n-- {
			out[r.IntN(len(out))] ^= 1 << uint(r.IntN(8))
		}
	case 3: // a natural-number field near the start replaced by a boundary value
		v := refpvm.EncNat(vLenSubst[r.IntN(len(vLenSubst))])
		at := r.IntN(min(len(out)+1, 6))
		out = append(append(append([]byte(nil), out[:at]...), v...), out[min(len(out), at+1):]...)
	case 4: // a fixed-width little-endian length field overwritten
		if len(out) >= 4 {
			at := r.IntN(min(len(out)-3, 16))
			binary.LittleEndian.PutUint32(out[at:], uint32(vLenSubst[r.IntN(len(vLenSubst))]))
		}
	case 5: // random bytes
		out = r.Bytes(r.IntN(64))
	case 6: // extension with garbage
		out = append(out, r.Bytes(1+r.IntN(16))...)
	case 7: // byte at a random position set to 0xFF / 0x00
		if len(out) > 0 {
			out[r.IntN(len(out))] = byte(0xFF * r.IntN(2))
		}
	}
	return out
}

// vWrapHeaderBlob crafts a deblob-format program whose declared jump-table count times entry width wraps around
// 2^64 to a small number (so that the header is consistent with the few table bytes that follow) and whose code
// performs a dynamic jump through the table.
func vWrapHeaderBlob(r vh.R) []byte {
	z := []uint64{2, 3, 4, 5, 7, 8, 16, 128, 255}[r.IntN(9)]
	j := ^uint64(0)/z + 1 + uint64(r.IntN(4)) // ceil(2^64 / z) + k: j*z mod 2^64 is small
	if r.IntN(4) == 0 {
		j = 1<<32 + uint64(r.IntN(3)) // no wrap, just beyond 32 bits
	}
	prod := j * z
	a := &refpvm.Asm{}
	a.Label()
	a.OneRegImm(51, 2, 2*uint64(1+r.IntN(6)), 4) // load_imm r2 = 2*(index+1)
	a.OneRegImm(50, 2, 0, 1)                     // jump_ind r2 + 0
	a.Trap()
	out := append(refpvm.EncNat(j), byte(z))
	out = append(out, refpvm.EncNat(uint64(len(a.Code)))...)
	if prod <= 4096 {
		out = append(out, r.Bytes(int(prod))...)
	}
	out = append(out, a.Code...)
	mask := make([]byte, (len(a.Mask)+7)/8)
	for i, b := range a.Mask {
		if b {
			mask[i/8] |= 1 << uint(i%8)
		}
	}
	return append(out, mask...)
}

// vStdDeclared returns the sizes a standard-program blob declares (0 if it does not parse).
func vStdDeclared(b []byte) uint64 {
	if len(b) < 11 {
		return 0
	}
	le := func(x []byte) uint64 {
		var v uint64
		for i, c := range x {
			v |= uint64(c) << (8 * uint(i))
		}
		return v
	}
	return le(b[0:3]) + le(b[3:6]) + le(b[6:8])*ZP + le(b[8:11])
}

type vTarget struct {
	name string
	run  func(b []byte, r vh.R)
	std  bool // input is a standard-program blob (otherwise a deblob-format blob)
}

func vTargets() []vTarget {
	core := types.CoreIndex(0)
	return []vTarget{
		{"DeBlobProgramCode", func(b []byte, r vh.R) { DeBlobProgramCode(b) }, false},
		{"SingleInitializer", func(b []byte, r vh.R) { SingleInitializer(StandardCodeFormat(b), Argument(r.Bytes(r.IntN(64)))) }, true},
		{"Psi_M", func(b []byte, r vh.R) {
			Psi_M(StandardCodeFormat(b), ProgramCounter(5*r.IntN(2)), types.Gas(r.IntN(10001)), Argument(r.Bytes(r.IntN(64))), IsAuthorizedOmegas,
				HostCallArgs{GeneralArgs: GeneralArgs{CoreID: &core}})
		}, true},
		{"Psi_A", func(b []byte, r vh.R) {
			code := append([]byte{3, 'a', 'b', 'c'}, b...) // metadata prefix + standard program
			if r.IntN(4) == 0 {
				code = b // the raw bytes as metadata-prefixed code
			}
			acct, _ := vAccountWithCode(code)
			ps := types.PartialStateSet{ServiceAccounts: types.ServiceAccountState{7: acct}, Assign: make(types.ServiceIDList, types.CoresCount),
				ValidatorKeys: make(types.ValidatorsData, types.ValidatorsCount), Authorizers: make(types.AuthQueues, types.CoresCount), AlwaysAccum: types.AlwaysAccumulateMap{}}
			Psi_A(ps, 10, 7, types.Gas(r.IntN(10001)), nil, types.Entropy{}, nil)
		}, true},
		{"RefineInvoke", func(b []byte, r vh.R) {
			code := append([]byte{3, 'a', 'b', 'c'}, b...)
			if r.IntN(4) == 0 {
				code = b
			}
			acct, hh := vAccountWithCode(code)
			wp := types.WorkPackage{Context: types.RefineContext{LookupAnchorSlot: 5}, Items: []types.WorkItem{{Service: 7, CodeHash: hh, RefineGasLimit: types.Gas(r.IntN(10001)), Payload: r.Bytes(r.IntN(16))}}}
			RefineInvoke(RefineInput{WorkPackage: wp, ServiceAccounts: types.ServiceAccountState{7: acct}, ExtrinsicDataMap: ExtrinsicDataMap{}})
		}, true},
		{"machine+invoke", func(b []byte, r vh.R) {
			// outer machine memory: the blob at 0x20000.., the invoke parameter block at 0x40000
			mem := &Memory{Pages: map[uint32]*Page{}}
			for p := uint32(32); p < 32+uint32(len(b)/ZP)+2; p++ {
				mem.Pages[p] = &Page{Value: make([]byte, ZP), Access: MemoryReadWrite}
			}
			mem.Pages[64] = &Page{Value: make([]byte, ZP), Access: MemoryReadWrite}
			mem.Write(0x20000, b)
			outer, _ := DeBlobProgramCode(refpvm.EncodeBlob([]byte{0}, []bool{true}, nil, 1))
			var regs Registers
			gas := Gas(100000)
			add := HostCallArgs{RefineArgs: RefineArgs{IntegratedPVMMap: IntegratedPVMMap{}}, Program: &outer}
			regs[7], regs[8], regs[9] = 0x20000, uint64(len(b)), uint64(r.IntN(8))
			out := HostCallFunctions[MachineOp](OmegaInput{VM: &VMState{Registers: &regs, Memory: mem, Gas: &gas}, Addition: add, HostCalls: RefineOmegas})
			if regs[7] > 100 {
				return // HUH etc.
			}
			n := regs[7]
			// parameter block: gas (<= 10^4) and 13 registers
			pb := make([]byte, 112)
			binary.LittleEndian.PutUint64(pb, uint64(r.IntN(10001)))
			for k := 0; k < 13; k++ {
				binary.LittleEndian.PutUint64(pb[8+8*k:], r.U64())
			}
			mem.Write(0x40000, pb)
			regs[7], regs[8] = n, 0x40000
			HostCallFunctions[InvokeOp](OmegaInput{VM: &VMState{Registers: &regs, Memory: mem, Gas: &gas}, Addition: out.Addition, HostCalls: RefineOmegas})
		}, false},
	}
}

func TestVerifC03(t *testing.T) {
	h := vh.Open(t, "C03")
	defer h.Done()
	types.SetTinyMode()
	targets := vTargets()
	var ms runtime.MemStats

	runOne := func(stratum string, i int, tg vTarget, b []byte, r vh.R, cls string) {
		h.Case(stratum, i, cls, map[string]any{"target": tg.name, "len": len(b), "bytes": vh.Hex(b[:min(len(b), 300)])})
		runtime.ReadMemStats(&ms)
		before := ms.TotalAlloc
		done := make(chan struct{})
		var panicked bool
		var msg, st string
		t0 := time.Now()
		go func() {
			defer close(done)
			eb := make([]byte, len(b)) // capacity == length: a parser that reslices past the end faults instead of reading slack
			copy(eb, b)
			panicked, msg, st = vh.Guard(func() { tg.run(eb, r) })
		}()
		select {
		case <-done:
		case <-time.After(60 * time.Second):
			// gas <= 10^4 needs microseconds: a call that has not returned after 60 s loops without consuming gas
			h.Viol(stratum, i, cls, "no-progress: call did not return within 60 s although gas <= 10^4", map[string]any{"target": tg.name, "bytes": vh.Hex(b[:min(len(b), 300)])})
			h.Done()
			os.Exit(0)
		}
		el := time.Since(t0)
		runtime.ReadMemStats(&ms)
		delta := ms.TotalAlloc - before
		declared := uint64(len(b))
		if tg.std {
			declared += vStdDeclared(b)
			// Psi_A / RefineInvoke may also be handed the raw bytes as metadata-prefixed code: the program
			// then starts after the metadata, and its header declares the sizes
			if l, n, ok := refpvm.ReadNat(b); ok && l < uint64(len(b)) && uint64(n)+l <= uint64(len(b)) {
				declared += vStdDeclared(b[uint64(n)+l:])
			}
		}
		bound := uint64(64<<20) + 8*(declared+64)
		d := map[string]any{"target": tg.name, "len": len(b), "bytes": vh.Hex(b[:min(len(b), 300)])}
		if panicked {
			d["panic"], d["stack"] = msg, st
			h.Viol(stratum, i, cls, "go-runtime-panic", d)
		}
		if delta > bound {
			d["allocated"], d["bound"] = delta, bound
			h.Viol(stratum, i, cls, "allocation-beyond-bound", d)
		}
		h.Inc("calls_" + tg.name)
		if el > 5*time.Second {
			h.Inc("slow_calls_over_5s")
		}
	}

	n := h.N(40000, 800000)
	for i := 0; i < n; i++ {
		if !h.Mine("fuzz", i) {
			continue
		}
		r := h.Rng("fuzz", i)
		tg := targets[i%len(targets)]
		seed := vSeedBlob(r)
		if tg.std {
			seed = refpvm.StdBlob(r.Bytes(r.Size(300)), r.Bytes(r.Size(300)), uint16(r.IntN(3)), uint32(r.Size(5000)), seed)
		}
		b := vMutate(r, seed, r.IntN(8))
		if r.IntN(6) == 0 {
			b = vMutate(r, b, r.IntN(8)) // second mutation
		}
		runOne("fuzz", i, tg, b, r, "")
		h.Distinct(tg.name, b)
		if i < 3 {
			h.Sample(map[string]any{"target": tg.name, "bytes": vh.Hex(b[:min(len(b), 80)])})
		}
	}

	// every opcode as the LAST instruction of the code with 0..10 operand bytes present (the remaining operand bytes
	// come from the implicit zero extension), through both engines: machine+invoke (step engine) and Psi_M (block engine)
	for op := 0; op < 256; op++ {
		for k := 0; k <= 10; k++ {
			i := op*11 + k
			if !h.Mine("tail", i) {
				continue
			}
			r := h.Rng("tail", i)
			code := []byte{1, byte(op)} // fallthrough, then the opcode under test
			mask := []bool{true, true}
			for x := 0; x < k; x++ {
				code = append(code, byte(r.IntN(256)))
				mask = append(mask, false)
			}
			blob := refpvm.EncodeBlob(code, mask, []uint64{0}, 1)
			for _, tg := range targets {
				switch tg.name {
				case "machine+invoke":
					runOne("tail", i, tg, blob, r, "")
				case "Psi_M":
					runOne("tail", i, tg, refpvm.StdBlob(nil, nil, 0, 0, blob), r, "")
				}
			}
			h.Distinct("tail", op, k)
		}
	}

	// well-formed programs started from arbitrary (boundary-biased) register contents and memory maps, directly on both engines:
	// every register state is reachable by a program (13 load_imm_64), and it is what `invoke` hands to an inner machine. Finds
	// host-language faults that depend on operand VALUES (a divisor whose low half is zero, a shift count, an address at 2^32-1).
	ng := h.N(24000, 400000)
	for i := 0; i < ng; i++ {
		if !h.Mine("regs", i) {
			continue
		}
		r := h.Rng("regs", i)
		c := refpvm.GenCompilerLike(r, []uint64{0, 1, 8, 12, 100})
		if r.IntN(4) == 0 {
			c = vHostileCase(r)
		}
		engine := []string{"block-engine", "step-engine"}[i%2]
		tg := vTarget{engine, func(b []byte, _ vh.R) {
			prog, er := DeBlobProgramCode(append([]byte(nil), b...))
			if er != ExitContinue {
				return
			}
			ip := NewInterpreter(&prog, Registers(c.Regs), vImplMem(c.Pages), Gas(min(max(c.Gas, 0), 10000)))
			if engine == "step-engine" {
				ip.SingleStepInvoke(ProgramCounter(c.PC))
			} else {
				ip.SingleStepInvokeDecodedBlocks(ProgramCounter(c.PC))
			}
		}, false}
		runOne("regs", i, tg, c.Blob, r, "")
		h.Inc("runs_from_arbitrary_registers_" + engine)
		h.Distinct("regs", c.Blob, c.Regs[:3])
	}

	// crafted headers whose size arithmetic wraps around 2^64, through every target
	nw := h.N(1200, 24000)
	for i := 0; i < nw; i++ {
		if !h.Mine("wrap", i) {
			continue
		}
		r := h.Rng("wrap", i)
		tg := targets[i%len(targets)]
		b := vWrapHeaderBlob(r)
		if tg.std {
			b = refpvm.StdBlob(nil, nil, 0, 0, b)
		}
		runOne("wrap", i, tg, b, r, "")
		h.Distinct("wrap", tg.name, b)
	}

	// blobs that END inside or right after a multi-byte natural number of the header: every length class (first byte 00, 80, C0, E0,
	// F0, F8, FC, FE, FF) for the jump-table count and for the code length, every cut; buffers have no spare capacity (runOne), so a
	// reader that loads a fixed-width word across the end of the input faults
	firsts := []byte{0x00, 0x80, 0xC0, 0xE0, 0xF0, 0xF8, 0xFC, 0xFE, 0xFF}
	nat := func(cls int, r vh.R) []byte {
		b := append([]byte{firsts[cls]}, r.Bytes(cls)...)
		if cls == 8 {
			b = append([]byte{0xFF}, r.Bytes(8)...)
		}
		if r.Bool() { // a small value in a long form, or zeros
			for k := 1; k < len(b); k++ {
				b[k] = 0
			}
			if len(b) > 1 {
				b[len(b)-1] = byte(r.IntN(64))
			}
		}
		return b
	}
	ci := 0
	for cj := 0; cj < 9; cj++ {
		for cc := 0; cc < 9; cc++ {
			ci++
			if !h.Mine("natcut", ci) {
				continue
			}
			r := h.Rng("natcut", ci)
			full := append(append(append([]byte{}, nat(cj, r)...), byte(r.IntN(9))), nat(cc, r)...)
			full = append(full, r.Bytes(r.IntN(4))...)
			for cut := 1; cut <= len(full); cut++ {
				for _, tg := range targets {
					b := full[:cut]
					if tg.std {
						b = refpvm.StdBlob(nil, nil, 0, 0, b)
					}
					runOne("natcut", ci, tg, b, r, "")
				}
			}
			h.Inc("headers_cut_inside_a_natural_number")
			h.Distinct("natcut", cj, cc)
		}
	}

	// every truncation of a few valid blobs, through every target
	nt := h.N(12, 120)
	for i := 0; i < nt; i++ {
		if !h.Mine("trunc", i) {
			continue
		}
		r := h.Rng("trunc", i)
		for ti, tg := range targets {
			seed := vSeedBlob(r)
			if tg.std {
				seed = refpvm.StdBlob(r.Bytes(r.IntN(40)), r.Bytes(r.IntN(40)), uint16(r.IntN(2)), uint32(r.IntN(5000)), seed)
			}
			for cut := 0; cut <= len(seed); cut++ {
				runOne("trunc", i*16+ti, tg, seed[:cut], r, "")
			}
		}
		h.Distinct("trunc", i)
	}

	// trigger stratum for the open finding C03-F2: one sbrk instruction asks for 256 MiB
	if h.Mine("sbrk-big", 0) {
		a := &refpvm.Asm{}
		a.Label()
		a.LoadImm64(3, 256<<20)
		a.TwoReg(101, 4, 3)
		a.Trap()
		std := refpvm.StdBlob(nil, nil, 0, 0, a.Blob(nil, 1))
		r := h.Rng("sbrk-big", 0)
		core := types.CoreIndex(0)
		tg := vTarget{"Psi_M(sbrk 256MiB)", func(b []byte, r vh.R) {
			Psi_M(StandardCodeFormat(b), 0, 100, nil, IsAuthorizedOmegas, HostCallArgs{GeneralArgs: GeneralArgs{CoreID: &core}})
		}, true}
		runOne("sbrk-big", 0, tg, std, r, "C03-F2")
	}
}

var _ = fmt.Sprint
