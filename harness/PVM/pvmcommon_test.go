package PVM

// Shared plumbing of /verif's PVM monitors (C01-C05): building the implementation's memory from a
// page specification, running either engine under a panic guard and comparing with refpvm.

import (
	"bytes"
	"fmt"
	"sort"

	"github.com/New-JAMneration/JAM-Protocol/internal/zzverif/refpvm"
	"github.com/New-JAMneration/JAM-Protocol/internal/zzverif/vh"
)

func vImplMem(pages []refpvm.PageSpec) *Memory {
	m := &Memory{Pages: map[uint32]*Page{}}
	for _, ps := range pages {
		p := &Page{Value: make([]byte, ZP)}
		ps.Fill(p.Value)
		switch ps.Acc {
		case refpvm.RO:
			p.Access = MemoryReadOnly
		case refpvm.RW:
			p.Access = MemoryReadWrite
		default:
			p.Access = MemoryInaccessible
		}
		m.Pages[ps.No] = p
	}
	return m
}

type vImpl struct {
	prog   Program
	interp *Interpreter
	engine string // "block" | "step"
}

// vNewImpl deblobs and creates the interpreter. status: "" ok, "deblob-rejected", or "go-panic: …"
func vNewImpl(blob []byte, gas int64, regs [13]uint64, pages []refpvm.PageSpec, engine string) (v *vImpl, status, stack string) {
	p, msg, st := vh.Guard(func() {
		prog, er := DeBlobProgramCode(append([]byte(nil), blob...))
		if er != ExitContinue {
			status = "deblob-rejected"
			return
		}
		v = &vImpl{prog: prog, engine: engine}
		v.interp = NewInterpreter(&v.prog, Registers(regs), vImplMem(pages), Gas(gas))
	})
	if p {
		return nil, "go-panic: " + msg, st
	}
	return
}

func (v *vImpl) run(pc uint32) (er ExitReason, npc ProgramCounter, gopanic, stack string) {
	p, msg, st := vh.Guard(func() {
		if v.engine == "step" {
			er, npc = v.interp.SingleStepInvoke(ProgramCounter(pc))
		} else {
			er, npc = v.interp.SingleStepInvokeDecodedBlocks(ProgramCounter(pc))
		}
	})
	if p {
		return 0, 0, msg, st
	}
	return
}

func vKind(er ExitReason) refpvm.ExitKind {
	switch er.GetReasonType() {
	case HALT:
		return refpvm.Halt
	case PANIC:
		return refpvm.Panic
	case OUT_OF_GAS:
		return refpvm.OOG
	case PAGE_FAULT:
		return refpvm.Fault
	case HOST_CALL:
		return refpvm.Host
	case CONTINUE:
		return refpvm.Continue
	}
	return refpvm.Unmodelled
}

// vMemDiff compares the implementation's page map with the model's.
func vMemDiff(im *Memory, mm refpvm.Mem) string {
	var keys []uint32
	seen := map[uint32]bool{}
	for k := range im.Pages {
		keys = append(keys, k)
		seen[k] = true
	}
	for k := range mm {
		if !seen[k] {
			keys = append(keys, k)
		}
	}
	sort.Slice(keys, func(i, j int) bool { return keys[i] < keys[j] })
	for _, k := range keys {
		ip, mp := im.Pages[k], mm[k]
		switch {
		case ip == nil:
			return fmt.Sprintf("page %d: missing in implementation", k)
		case mp == nil:
			return fmt.Sprintf("page %d: extra page in implementation (access %d)", k, ip.Access)
		}
		if int(ip.Access) != int(mp.Acc) {
			return fmt.Sprintf("page %d: access %d, model %d", k, ip.Access, mp.Acc)
		}
		if !bytes.Equal(ip.Value, mp.Data[:]) {
			for i := range mp.Data {
				if i >= len(ip.Value) || ip.Value[i] != mp.Data[i] {
					return fmt.Sprintf("page %d: content differs at offset %d", k, i)
				}
			}
			return fmt.Sprintf("page %d: length %d", k, len(ip.Value))
		}
	}
	return ""
}

// vCompare compares one finished segment. Returns "" or a divergence description.
// Conventions (DESIGN C01): gas always; pc for OOG / fault / host-call (normalised); registers
// except after a panic raised by opcodes 80/180; memory always; the fault address may be anywhere
// between the start of the page containing the access start and the end of the access.
func vCompare(p *refpvm.Program, me refpvm.Exit, ms *refpvm.State, ie ExitReason, ipc ProgramCounter, iv *vImpl, engine string) string {
	if vKind(ie) != me.Kind {
		return fmt.Sprintf("exit %s, model %s", vKind(ie), me.Kind)
	}
	if int64(iv.interp.Gas) != ms.Gas {
		return fmt.Sprintf("gas %d, model %d (exit %s)", iv.interp.Gas, ms.Gas, me.Kind)
	}
	switch me.Kind {
	case refpvm.Host:
		// the ExitReason word cannot hold a 64-bit payload next to the type byte: compare what the
		// dispatcher will see (callers with identifiers >= 2^56 are classified separately)
		wantID := me.Arg
		if wantID > 1<<56-1 {
			wantID = 1<<56 - 1 // identifiers beyond the payload are reported as the largest (equally unknown) one
		}
		if uint64(ie)&(1<<56-1) != wantID {
			return fmt.Sprintf("host-call id %d, model %d", uint64(ie)&(1<<56-1), me.Arg)
		}
		want := p.NextPC(ms.PC)
		got := uint32(ipc)
		if engine == "step" { // the step engine reports the pc of the ecalli itself
			want = ms.PC
		}
		if got != want {
			return fmt.Sprintf("resume pc %d, model %d", got, want)
		}
	case refpvm.OOG:
		if uint32(ipc) != ms.PC {
			return fmt.Sprintf("pc at out-of-gas %d, model %d", ipc, ms.PC)
		}
	case refpvm.Fault:
		if engine == "block" && uint32(ipc) != ms.PC {
			return fmt.Sprintf("pc at page-fault %d, model %d", ipc, ms.PC)
		}
		a := uint64(ie.GetPageFaultAddress())
		lo := uint64(me.AccStart) / refpvm.ZP * refpvm.ZP
		hi := uint64(me.AccStart) + uint64(me.AccLen)
		if !(a >= lo && a < hi) && !(hi > 1<<32 && a < hi-1<<32) {
			return fmt.Sprintf("fault address %#x outside [%#x,%#x) (GP: %#x)", a, lo, hi, me.Arg)
		}
	}
	skipRegs := false
	if me.Kind == refpvm.Panic {
		op := byte(0)
		if int(ms.PC) < len(p.Code) {
			op = p.Code[ms.PC]
		}
		skipRegs = op == 80 || op == 180
	}
	if !skipRegs && [13]uint64(iv.interp.Registers) != ms.Regs {
		for i := range ms.Regs {
			if iv.interp.Registers[i] != ms.Regs[i] {
				return fmt.Sprintf("register %d = %#x, model %#x (exit %s)", i, iv.interp.Registers[i], ms.Regs[i], me.Kind)
			}
		}
	}
	if d := vMemDiff(iv.interp.Memory, ms.Mem); d != "" {
		return "memory: " + d
	}
	return ""
}

func vCaseDetail(c refpvm.Case) map[string]any {
	return map[string]any{"blob": vh.Hex(c.Blob), "pc": c.PC, "gas": c.Gas, "regs": fmt.Sprintf("%x", c.Regs), "pages": fmt.Sprintf("%v", c.Pages), "kind": c.Kind}
}
