package PVM

import (
	"bytes"
	"encoding/binary"
	"fmt"
	"sort"
	"testing"

	"github.com/New-JAMneration/JAM-Protocol/internal/zzverif/refpvm"
	"github.com/New-JAMneration/JAM-Protocol/internal/zzverif/vh"
)

// ---- model of the six inner-machine host calls (GP App. B, refine functions) ------------------------

type vInner struct {
	blob []byte
	prog *refpvm.Program
	mem  refpvm.Mem
	pc   uint32
}

type vInnerModel struct {
	m map[uint64]*vInner
}

func (mm *vInnerModel) innerOK(n uint64, addr, z uint64, write bool) bool {
	if z == 0 {
		return true
	}
	if addr >= 1<<32 || z > 1<<32 || addr+z > 1<<32 {
		return false
	}
	for p := addr / ZP; p <= (addr+z-1)/ZP; p++ {
		pg := mm.m[n].mem[uint32(p)]
		if pg == nil || pg.Acc == refpvm.None || (write && pg.Acc != refpvm.RW) {
			return false
		}
	}
	return true
}

// ---- harness ---------------------------------------------------------------------------------------

func vInnerDigestImpl(im IntegratedPVMMap) map[uint64]string {
	out := map[uint64]string{}
	for n, m := range im {
		var ps []uint32
		for p, pg := range m.Memory.Pages {
			if pg.Access != MemoryInaccessible {
				ps = append(ps, p)
			}
		}
		sort.Slice(ps, func(i, j int) bool { return ps[i] < ps[j] })
		s := fmt.Sprintf("pc=%d blob=%x pages:", m.PC, m.ProgramCode)
		for _, p := range ps {
			pg := m.Memory.Pages[p]
			s += fmt.Sprintf(" %d/%d/%x", p, pg.Access, vSum(pg.Value))
		}
		out[n] = s
	}
	return out
}

func vInnerDigestModel(mm *vInnerModel) map[uint64]string {
	out := map[uint64]string{}
	for n, m := range mm.m {
		var ps []uint32
		for p, pg := range m.mem {
			if pg.Acc != refpvm.None {
				ps = append(ps, p)
			}
		}
		sort.Slice(ps, func(i, j int) bool { return ps[i] < ps[j] })
		s := fmt.Sprintf("pc=%d blob=%x pages:", m.pc, m.blob)
		for _, p := range ps {
			pg := m.mem[p]
			s += fmt.Sprintf(" %d/%d/%x", p, pg.Acc, vSum(pg.Data[:]))
		}
		out[n] = s
	}
	return out
}

func vSum(b []byte) uint64 {
	var h uint64 = 1469598103934665603
	for _, c := range b {
		h = (h ^ uint64(c)) * 1099511628211
	}
	return h
}

func TestVerifC33(t *testing.T) {
	h := vh.Open(t, "C33")
	defer h.Done()
	n := h.N(20000, 400000)
	for ci := 0; ci < n; ci++ {
		if !h.Mine("seq", ci) {
			continue
		}
		h.CaseLight("seq", ci)
		r := h.Rng("seq", ci)
		// outer machine: 4 RW pages at 0x20000, 1 RO page at 0x30000; canary pattern everywhere
		mem := &Memory{Pages: map[uint32]*Page{}}
		for p := uint32(0); p < vRWN; p++ {
			mem.Pages[vRW0/ZP+p] = &Page{Value: r.Bytes(ZP), Access: MemoryReadWrite}
		}
		mem.Pages[vRO0/ZP] = &Page{Value: r.Bytes(ZP), Access: MemoryReadOnly}
		outer, _ := DeBlobProgramCode(refpvm.EncodeBlob([]byte{0}, []bool{true}, nil, 1))
		add := HostCallArgs{RefineArgs: RefineArgs{IntegratedPVMMap: IntegratedPVMMap{}}, Program: &outer}
		model := &vInnerModel{m: map[uint64]*vInner{}}
		gas := Gas(1_000_000)
		var regs Registers
		poke := func(addr uint64, b []byte) {
			for i, x := range b {
				a := addr + uint64(i)
				if p, ok := mem.Pages[uint32(a/ZP)]; ok {
					p.Value[a%ZP] = x
				}
			}
		}
		outerOK := func(addr, z uint64, write bool) bool { return isReadableModel(mem, addr, z, write) }
		anyMachine := func() uint64 {
			if r.IntN(6) == 0 {
				return uint64(r.IntN(5))
			}
			var ks []uint64
			for k := range model.m {
				ks = append(ks, k)
			}
			if len(ks) == 0 {
				return uint64(r.IntN(3))
			}
			sort.Slice(ks, func(i, j int) bool { return ks[i] < ks[j] })
			return ks[r.IntN(len(ks))]
		}
		steps := 1 + r.IntN(30)
		var trace []string
		for step := 0; step < steps; step++ {
			for i := range regs {
				regs[i] = r.U64()
			}
			op := []OperationType{MachineOp, MachineOp, PagesOp, PagesOp, PagesOp, PokeOp, PokeOp, InvokeOp, InvokeOp, PeekOp, PeekOp, ExpungeOp}[r.IntN(12)]
			// --- arguments + model expectation ------------------------------------------------------------
			type expect struct {
				panic      bool
				w7, w8     uint64
				w8set      bool
				outerWrite []byte // expected bytes at outerAddr (nil: outer memory unchanged)
				outerAddr  uint64
				lenient    bool // U8 etc.: result not judged, model resynchronised from the implementation
			}
			var ex expect
			switch op {
			case MachineOp:
				var blob []byte
				switch r.IntN(5) {
				case 0:
					blob = r.Bytes(r.IntN(20)) // mostly invalid
				case 1:
					blob = vHostileCase(r).Blob
				default:
					blob = vInnerProgram(r)
				}
				po := uint64(vRW0 + r.IntN(vRWN*ZP-len(blob)))
				poke(po, blob)
				if r.IntN(10) == 0 {
					po = vRW0 + vRWN*ZP - uint64(len(blob)) + 1 // runs off the mapped range
				}
				pc := uint64(0)
				if r.IntN(4) == 0 {
					pc = uint64(r.IntN(8))
				}
				regs[7], regs[8], regs[9] = po, uint64(len(blob)), pc
				switch {
				case !outerOK(po, uint64(len(blob)), false):
					ex.panic = true
				default:
					src := make([]byte, len(blob))
					for i := range src {
						a := po + uint64(i)
						src[i] = mem.Pages[uint32(a/ZP)].Value[a%ZP]
					}
					prog, ok := refpvm.Deblob(src)
					if !ok {
						ex.w7 = HUH
					} else {
						id := uint64(0)
						for ; ; id++ {
							if _, used := model.m[id]; !used {
								break
							}
						}
						ex.w7 = id
						model.m[id] = &vInner{blob: src, prog: prog, mem: refpvm.Mem{}, pc: uint32(pc)}
					}
				}
			case PagesOp:
				nn := anyMachine()
				p, c, md := uint64(14+r.IntN(8)), uint64(r.IntN(4)), uint64(r.IntN(6))
				switch r.IntN(12) {
				case 0:
					p = 1<<20 - 1 - uint64(r.IntN(3))
				case 1:
					p, c = r.U64(), r.U64()
				case 2:
					c = 1<<20 - p - uint64(r.IntN(2))
					md = 5 // refused anyway: never maps a million pages
				}
				regs[7], regs[8], regs[9], regs[10] = nn, p, c, md
				im, exists := model.m[nn]
				switch {
				case !exists:
					ex.w7 = WHO
				case md > 4 || p < 16 || p >= 1<<20 || c >= 1<<20 || p+c >= 1<<20:
					ex.w7 = HUH
				default:
					bad := false
					if md > 2 {
						for i := p; i < p+c; i++ {
							if pg := im.mem[uint32(i)]; pg == nil || pg.Acc == refpvm.None {
								bad = true
							}
						}
					}
					if bad {
						ex.w7 = HUH
					} else {
						ex.w7 = OK
						for i := p; i < p+c; i++ {
							old := im.mem[uint32(i)]
							np := &refpvm.Page{}
							if md >= 3 && old != nil {
								np.Data = old.Data
							}
							switch md {
							case 0:
								delete(im.mem, uint32(i))
								continue
							case 1, 3:
								np.Acc = refpvm.RO
							default:
								np.Acc = refpvm.RW
							}
							im.mem[uint32(i)] = np
						}
					}
				}
			case PokeOp:
				nn := anyMachine()
				z := uint64(r.IntN(300))
				if r.IntN(8) == 0 {
					z = 0
				}
				s := uint64(vRW0 + r.IntN(vRWN*ZP-int(z)))
				if r.IntN(10) == 0 {
					s = vRO0 + ZP - z/2 // straddles the end of the RO page
				}
				o := uint64(16+r.IntN(6))*ZP + uint64(r.IntN(ZP))
				if r.IntN(5) == 0 {
					o = uint64(17+r.IntN(4))*ZP - z/2 // straddles a page edge
				}
				regs[7], regs[8], regs[9], regs[10] = nn, s, o, z
				_, exists := model.m[nn]
				switch {
				case !outerOK(s, z, false):
					ex.panic = true
				case !exists:
					ex.w7 = WHO
				case !model.innerOK(nn, o, z, true):
					ex.w7 = OOB
				default:
					ex.w7 = OK
					for i := uint64(0); i < z; i++ {
						a := s + i
						b := mem.Pages[uint32(a/ZP)].Value[a%ZP]
						d := o + i
						model.m[nn].mem[uint32(d/ZP)].Data[d%ZP] = b
					}
				}
			case PeekOp:
				nn := anyMachine()
				z := uint64(r.IntN(300))
				if r.IntN(8) == 0 {
					z = 0
				}
				o := uint64(vRW0 + r.IntN(vRWN*ZP-int(z)))
				if r.IntN(10) == 0 {
					o = vRO0 + uint64(r.IntN(ZP/2)) // read-only destination
				}
				s := uint64(16+r.IntN(6))*ZP + uint64(r.IntN(ZP))
				if r.IntN(5) == 0 {
					s = uint64(17+r.IntN(4))*ZP - z/2
				}
				regs[7], regs[8], regs[9], regs[10] = nn, o, s, z
				_, exists := model.m[nn]
				switch {
				case z == 0 && !exists:
					ex.lenient = true // U8
				case !outerOK(o, z, true):
					ex.panic = true
				case !exists:
					ex.w7 = WHO
				case !model.innerOK(nn, s, z, false):
					ex.w7 = OOB
				default:
					ex.w7 = OK
					ex.outerAddr = o
					ex.outerWrite = make([]byte, z)
					for i := uint64(0); i < z; i++ {
						a := s + i
						ex.outerWrite[i] = model.m[nn].mem[uint32(a/ZP)].Data[a%ZP]
					}
				}
			case InvokeOp:
				nn := anyMachine()
				o := uint64(vRW0 + r.IntN(vRWN*ZP-112))
				if r.IntN(10) == 0 {
					o = vRO0 + uint64(r.IntN(ZP-112))
				}
				g := uint64(r.IntN(60))
				if r.IntN(20) == 0 {
					g = 1<<63 + uint64(r.IntN(5)) // not representable in the signed gas register
				}
				var w [13]uint64
				for k := range w {
					w[k] = r.U64()
					if r.Bool() {
						w[k] = uint64(16+r.IntN(6))*ZP + uint64(r.IntN(ZP))
					}
				}
				pb := make([]byte, 112)
				binary.LittleEndian.PutUint64(pb, g)
				for k := 0; k < 13; k++ {
					binary.LittleEndian.PutUint64(pb[8+8*k:], w[k])
				}
				poke(o, pb)
				regs[7], regs[8] = nn, o
				im, exists := model.m[nn]
				switch {
				case !outerOK(o, 112, true):
					ex.panic = true
				case !exists:
					ex.w7 = WHO
				case g >= 1<<63 || im.prog.Overlong:
					ex.lenient = true
				default:
					st := &refpvm.State{PC: im.pc, Gas: int64(g), Regs: w, Mem: im.mem}
					e, _, done := im.prog.Run(st, 5000)
					if !done || e.Kind == refpvm.Unmodelled || st.Wrapped || st.JumpBeyond || st.OffMask {
						ex.lenient = true
						break
					}
					out := make([]byte, 112)
					binary.LittleEndian.PutUint64(out, uint64(st.Gas))
					for k := 0; k < 13; k++ {
						binary.LittleEndian.PutUint64(out[8+8*k:], st.Regs[k])
					}
					ex.outerAddr, ex.outerWrite = o, out
					if e.Kind == refpvm.Panic {
						op0 := byte(0)
						if int(st.PC) < len(im.prog.Code) {
							op0 = im.prog.Code[st.PC]
						}
						if op0 == 80 || op0 == 180 {
							ex.outerWrite = nil // registers after a panic of 80/180 are not judged (U10)
							ex.lenient = true
						}
					}
					im.pc = st.PC
					switch e.Kind {
					case refpvm.Halt:
						ex.w7 = INNERHALT
						im.pc = 0 // (GP A.1) the instruction counter of a halted or panicked machine is 0
					case refpvm.Panic:
						ex.w7 = INNERPANIC
						im.pc = 0
					case refpvm.Fault:
						ex.w7, ex.w8, ex.w8set = INNERFAULT, e.Arg, true
					case refpvm.Host:
						ex.w7, ex.w8, ex.w8set = INNERHOST, e.Arg, true
						im.pc = im.prog.NextPC(st.PC)
					case refpvm.OOG:
						ex.w7 = INNEROOG
					}
					if e.Kind == refpvm.Halt || e.Kind == refpvm.Panic {
						ex.lenient = ex.lenient || false
					}
				}
			case ExpungeOp:
				nn := anyMachine()
				regs[7] = nn
				if im, ok := model.m[nn]; ok {
					ex.w7 = uint64(im.pc)
					delete(model.m, nn)
				} else {
					ex.w7 = WHO
				}
			}
			trace = append(trace, fmt.Sprintf("%s(%x,%x,%x,%x)", opName(op), regs[7], regs[8], regs[9], regs[10]))
			if len(trace) > 8 {
				trace = trace[1:]
			}
			// --- run the implementation -----------------------------------------------------------------------
			regs0 := regs
			mem0 := vSnapMem(mem)
			var out OmegaOutput
			p, msg, st := vh.Guard(func() {
				out = RefineOmegas[op](OmegaInput{Operation: op, VM: &VMState{Registers: &regs, Memory: mem, Gas: &gas}, Addition: add, HostCalls: RefineOmegas})
			})
			d := map[string]any{"step": step, "call": trace[len(trace)-1], "recent": fmt.Sprint(trace), "machines": len(model.m)}
			if p {
				d["panic"], d["stack"] = msg, st
				h.Viol("seq", ci, "", "inner-machine: go panic in "+opName(op), d)
				break
			}
			h.Inc("calls_" + opName(op))
			if out.ExitReason == ExitContinue {
				add = out.Addition
			}
			if ex.lenient {
				h.Inc("not_judged")
				// resynchronise: abandon this sequence (the model cannot follow an unjudged call)
				break
			}
			gotPanic := out.ExitReason.GetReasonType() == PANIC
			d["want_w7"], d["got_w7"], d["got_exit"] = fmt.Sprintf("%#x", ex.w7), fmt.Sprintf("%#x", regs[7]), out.ExitReason.String()
			if gotPanic != ex.panic {
				h.Viol("seq", ci, "", "inner-machine: "+opName(op)+" panic/continue differs from the model", d)
				break
			}
			ch, _ := vMemRanges(mem0, mem)
			if ex.panic {
				if len(ch) > 0 {
					h.Viol("seq", ci, "", "inner-machine: panicking call wrote outer memory", d)
				}
				break // the refinement ends
			}
			// the guest-visible fault address may lie anywhere between the start of the faulting page and
			// the end of the access, as for the engine itself (C01): accept [page start, page start + ZP + 8)
			w8ok := !ex.w8set || regs[8] == ex.w8 || (ex.w7 == INNERFAULT && regs[8] >= ex.w8 && regs[8] < ex.w8+ZP)
			if regs[7] != ex.w7 || !w8ok {
				d["want_w8"], d["got_w8"] = ex.w8, regs[8]
				h.Viol("seq", ci, "", "inner-machine: "+opName(op)+" result registers differ from the model", d)
				break
			}
			for i := range regs {
				if i != 7 && !(i == 8 && op == InvokeOp) && regs[i] != regs0[i] {
					h.Viol("seq", ci, "", "inner-machine: "+opName(op)+" changed another register", d)
				}
			}
			// outer memory: exactly the expected bytes, nothing else
			if ex.outerWrite == nil {
				if len(ch) > 0 {
					d["changed"] = fmt.Sprint(ch)
					h.Viol("seq", ci, "", "inner-machine: "+opName(op)+" wrote outer memory", d)
					break
				}
			} else {
				got := mem.Read(ex.outerAddr, uint64(len(ex.outerWrite)))
				if len(ex.outerWrite) > 0 && !bytes.Equal(got, ex.outerWrite) {
					d["want"], d["got"] = vh.Hex(ex.outerWrite[:min(len(ex.outerWrite), 40)]), vh.Hex(got[:min(len(got), 40)])
					h.Viol("seq", ci, "", "inner-machine: "+opName(op)+" copied other bytes than the model", d)
					break
				}
				for _, c2 := range ch {
					if c2[0] < ex.outerAddr || c2[1] > ex.outerAddr+uint64(len(ex.outerWrite)) {
						h.Viol("seq", ci, "", "inner-machine: "+opName(op)+" wrote outside its destination", d)
					}
				}
			}
			// inner machines: page maps, contents, pc, existence
			gi, mi := vInnerDigestImpl(add.IntegratedPVMMap), vInnerDigestModel(model)
			same := len(gi) == len(mi)
			for k, v := range mi {
				if gi[k] != v {
					same = false
					d["machine"], d["impl_state"], d["model_state"] = k, gi[k][:min(len(gi[k]), 300)], v[:min(len(v), 300)]
				}
			}
			if !same {
				h.Viol("seq", ci, "", "inner-machine: state after "+opName(op)+" differs from the model", d)
				break
			}
			if op == InvokeOp && ex.w7 <= INNEROOG {
				h.Inc(fmt.Sprintf("invoke_exit_%d", ex.w7))
			}
			if op == PagesOp && ex.w7 == OK {
				h.Inc(fmt.Sprintf("pages_ok_mode_%d", regs0[10]))
			}
			if (op == PeekOp || op == PokeOp) && ex.w7 == OK && regs0[10] > 0 {
				h.Inc("copies_ok_" + opName(op))
			}
		}
		h.Distinct("seq", ci)
		if ci < 2 {
			h.Sample(map[string]any{"calls": trace})
		}
	}
}

// vInnerProgram: small valid programs that touch inner memory at 0x10000..0x15fff, call the host,
// halt, trap, loop or fault.
func vInnerProgram(r vh.R) []byte {
	a := &refpvm.Asm{}
	a.Label()
	n := r.IntN(6)
	for i := 0; i < n; i++ {
		addr := uint64(16+r.IntN(6))*ZP + uint64(r.IntN(ZP-8))
		switch r.IntN(5) {
		case 0:
			a.OneRegImm(byte(59+r.IntN(4)), r.IntN(13), refpvm.SignExtend(4, addr), 4)
		case 1:
			a.OneRegImm(byte(52+r.IntN(7)), r.IntN(13), refpvm.SignExtend(4, addr), 4)
		case 2:
			a.TwoRegImm(byte(120+r.IntN(11)), r.IntN(13), r.IntN(13), uint64(int64(r.IntN(9)-4)), 1)
		case 3:
			a.ThreeReg(byte(190+r.IntN(41)), r.IntN(13), r.IntN(13), r.IntN(13))
		default:
			a.Ecalli(uint64(r.IntN(300)), 2)
		}
	}
	switch r.IntN(4) {
	case 0:
		a.Trap()
	case 1:
		a.LoadImm64(0, 0xFFFF0000)
		a.OneRegImm(50, 0, 0, 0)
	case 2:
		a.Jump(0)
	default:
		a.Fallthrough()
	}
	a.Trap()
	a.Finish()
	return a.Blob(nil, 1)
}
