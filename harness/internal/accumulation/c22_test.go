package accumulation

// C22 — accumulation is deterministic (DESIGN §2 C22).
//
// A scenario is a prior state with 2..4 sender services and 1..2 receiver services whose code was assembled for the
// purpose: a sender emits 5..20 transfers (memo = marker, sender tag, running counter) to the receivers and halts; a
// receiver fetches the whole sequence of its accumulation inputs (fetch kind 14) and writes it under one storage key, so
// the order in which the transfers were handed to it becomes part of the posterior state. The block's accumulatable
// reports W* carry one work result per sender. accumulation.DeferredTransfers() is then run 12..24 times from identical
// deep copies of the prior state — with types.MaxWorkers in {1,2,32} and GOMAXPROCS in {1,2,16}, every run drawing new
// hash-map iteration orders — and a canonical projection of everything the run leaves behind (accounts incl. storage,
// privileges, queues, validator keys, accumulation outputs, gas statistics, accumulated history, ready queue, raw
// key-values as a set) must be identical across runs. The binary is built with the race detector.

import (
	"crypto/sha256"
	"encoding/binary"
	"fmt"
	"runtime"
	"sort"
	"strings"
	"testing"

	"github.com/New-JAMneration/JAM-Protocol/PVM"
	"github.com/New-JAMneration/JAM-Protocol/internal/blockchain"
	"github.com/New-JAMneration/JAM-Protocol/internal/types"
	"github.com/New-JAMneration/JAM-Protocol/internal/utilities/hash"
	"github.com/New-JAMneration/JAM-Protocol/internal/zzverif/refpvm"
	"github.com/New-JAMneration/JAM-Protocol/internal/zzverif/vh"
)

const (
	v22Data   = 0x20000 // read-write data: memo buffer (128 bytes) + key
	v22Buffer = 0x21000 // heap pages: the fetch buffer
)

func v22Wrap(a *refpvm.Asm, data []byte, heapPages uint16) []byte {
	a.Trap()
	a.Finish()
	std := refpvm.StdBlob(nil, data, heapPages, 4096, a.Blob(nil, 1))
	return append([]byte{2, 'v', 'f'}, std...)
}

func v22Halt(a *refpvm.Asm) {
	a.LoadImm64(7, 0)
	a.LoadImm64(8, 0)
	a.LoadImm64(0, 0xFFFF0000)
	a.OneRegImm(50, 0, 0, 0) // jump_ind: halt
}

type v22Transfer struct {
	to     types.ServiceID
	amount uint64
	gas    uint64
}

// v22SenderCode: one transfer host call per entry, memo = [0xA7, tag, k, 0...].
func v22SenderCode(tag byte, ts []v22Transfer, spin uint64, yields bool) []byte {
	a := &refpvm.Asm{}
	a.Label()
	a.Jump(1)
	a.Label() // pc 5: accumulate
	if yields {
		// yield the first 32 bytes of this invocation's input sequence: a service that is accumulated in two batches of one block
		// (once for its work report, once for a transfer it receives) leaves two different outputs in the block's output log
		a.LoadImm64(7, v22Buffer)
		a.LoadImm64(8, 0)
		a.LoadImm64(9, 3*4096)
		a.LoadImm64(10, 14)
		a.Ecalli(1, 1) // fetch
		a.LoadImm64(7, v22Buffer)
		a.Ecalli(25, 1) // yield
	}
	if spin > 0 {
		// a countdown before the first transfer: makes the service's accumulation long enough to overlap with its neighbours'
		a.LoadImm64(11, spin)
		a.Fallthrough()
		loop := a.Label()
		a.TwoRegImm(149, 11, 11, ^uint64(0), 1) // add_imm_64 ω11 = ω11 - 1
		a.BranchImm(82, 11, 0, 0, loop)         // branch_ne_imm ω11 != 0
		a.Label()
	}
	data := make([]byte, 160)
	data[0], data[1] = 0xA7, tag
	for k, t := range ts {
		a.TwoImm(30, v22Data+2, 4, uint64(k), 1) // store_imm_u8 memo[2] = k
		a.LoadImm64(7, uint64(t.to))
		a.LoadImm64(8, t.amount)
		a.LoadImm64(9, t.gas)
		a.LoadImm64(10, v22Data)
		a.Ecalli(20, 1) // transfer
	}
	v22Halt(a)
	if yields {
		return v22Wrap(a, data, 3)
	}
	return v22Wrap(a, data, 0)
}

// v22CreatorCode: one `new` host call (code hash taken from the data section), then halt.
func v22CreatorCode(tag byte) []byte {
	a := &refpvm.Asm{}
	a.Label()
	a.Jump(1)
	a.Label()
	data := make([]byte, 160)
	for i := 0; i < 32; i++ {
		data[i] = tag + byte(i)
	}
	a.LoadImm64(7, v22Data)
	a.LoadImm64(8, 10)
	a.LoadImm64(9, 100)
	a.LoadImm64(10, 100)
	a.LoadImm64(11, 0)
	a.LoadImm64(12, 0)
	a.Ecalli(18, 1) // new
	v22Halt(a)
	return v22Wrap(a, data, 0)
}

// v22ReceiverCode: fetch all accumulation inputs, store them under key "o".
func v22ReceiverCode() []byte {
	a := &refpvm.Asm{}
	a.Label()
	a.Jump(1)
	a.Label()
	data := make([]byte, 160)
	data[130] = 'o'
	a.LoadImm64(7, v22Buffer)
	a.LoadImm64(8, 0)
	a.LoadImm64(9, 3*4096)
	a.LoadImm64(10, 14)
	a.Ecalli(1, 1)       // fetch: ω7 = length
	a.TwoReg(100, 10, 7) // move_reg ω10 = ω7
	a.LoadImm64(7, v22Data+130)
	a.LoadImm64(8, 1)
	a.LoadImm64(9, v22Buffer)
	a.Ecalli(4, 1) // write
	v22Halt(a)
	return v22Wrap(a, data, 3)
}

func v22Account(code []byte, balance uint64) types.ServiceAccount {
	hh := hash.Blake2bHash(code)
	acc := types.ServiceAccount{
		ServiceInfo:    types.ServiceInfo{CodeHash: hh, Balance: types.U64(balance), MinItemGas: 1, MinMemoGas: 1},
		PreimageLookup: types.PreimagesMapEntry{hh: code},
		LookupDict:     types.LookupMetaMapEntry{{Hash: hh, Length: types.U32(len(code))}: {0}},
		StorageDict:    types.Storage{},
	}
	acc.ServiceInfo.Items = 2
	acc.ServiceInfo.Bytes = types.U64(81 + len(code))
	return acc
}

type v22Scenario struct {
	delta     types.ServiceAccountState
	chi       types.Privileges
	reports   []types.WorkReport
	receivers []types.ServiceID
	senders   []types.ServiceID
	tau       types.TimeSlot
	eta       types.EntropyBuffer
	desc      string
	maxToOne  int
	idMode    int
	spin      uint64
	hybrid    bool
	collide   bool
}

func v22Gen(r vh.R) v22Scenario {
	var sc v22Scenario
	sc.delta = types.ServiceAccountState{}
	nr := 1 + r.IntN(2)
	ns := 2 + r.IntN(3)
	// service identifiers: small ones, or the full 32-bit range a created service really gets (incl. the values a conversion
	// through rune / int32 / uint16 would fold together: above 0x10FFFF, 0xD800..0xDFFF, at and above 2^31, equal low halves)
	ids := r.Perm(60)
	idMode := r.IntN(3)
	used := map[types.ServiceID]bool{999: true}
	idOf := func(k int) types.ServiceID {
		for {
			id := types.ServiceID(100 + k)
			switch idMode {
			case 1:
				id = types.ServiceID(r.Uint64())
			case 2:
				id = []types.ServiceID{0xD800, 0xDC00, 0x110000, 0x7FFFFF00, 0x80000000, 0xFFFFFE00, 0x10000, 0x20000}[r.IntN(8)] + types.ServiceID(r.IntN(200))
				if r.IntN(3) == 0 {
					id = id&0xFFFF0000 | 0x0101 // same low half as its siblings
				}
			}
			if !used[id] && id != 0xFFFFFFFF {
				used[id] = true
				return id
			}
			k += 60
		}
	}
	spin := []uint64{0, 0, 3000, 30000}[r.IntN(4)]
	for i := 0; i < nr; i++ {
		id := idOf(ids[i])
		sc.receivers = append(sc.receivers, id)
		sc.delta[id] = v22Account(v22ReceiverCode(), 1<<40)
	}
	sc.tau = types.TimeSlot(100 + r.IntN(1000))
	for i := range sc.eta {
		copy(sc.eta[i][:], r.Bytes(32))
	}
	hybrid := r.Bool()
	perRecv := map[types.ServiceID]int{}
	var plan []string
	for i := 0; i < ns; i++ {
		id := idOf(ids[nr+i])
		sc.senders = append(sc.senders, id)
		m := 5 + r.IntN(16)
		var ts []v22Transfer
		for k := 0; k < m; k++ {
			to := sc.receivers[r.IntN(nr)]
			if r.IntN(4) != 0 {
				to = sc.receivers[0] // most of them to the same receiver: more than a dozen in one round
			}
			if hybrid && i > 0 && k == 0 {
				to = sc.senders[0] // the first sender also RECEIVES: it is accumulated again in the next batch of the same block
			}
			tg := uint64(30 + r.IntN(10))
			if hybrid && to == sc.senders[0] {
				tg = 4000 + 2*spin // enough for the receiving sender to run its whole program again
			}
			ts = append(ts, v22Transfer{to: to, amount: uint64(1 + r.IntN(50)), gas: tg})
			perRecv[to]++
		}
		sc.delta[id] = v22Account(v22SenderCode(byte(i+1), ts, spin, hybrid && i == 0), 1<<40)
		plan = append(plan, fmt.Sprintf("s%d:%d", id, m))
		var w types.WorkReport
		copy(w.PackageSpec.Hash[:], r.Bytes(32))
		w.CoreIndex = types.CoreIndex(i % types.CoresCount)
		w.Results = []types.WorkResult{{ServiceID: id, AccumulateGas: types.Gas(5000 + 2*spin + uint64(r.IntN(3))*1000), Result: types.WorkExecResult{Type: types.WorkExecResultOk, Data: r.Bytes(4)}}}
		sc.reports = append(sc.reports, w)
	}
	if r.IntN(6) == 0 {
		// two services of this batch that both create a service and are handed the SAME new identifier (the identifier is derived
		// from the creator's id, the entropy and the slot: a birthday search over creator ids finds such a pair in about 2^16 tries).
		// Which of the two accounts ends up under that identifier must not depend on scheduling or map iteration.
		seen := map[types.ServiceID]types.ServiceID{}
		base := types.ServiceID(70000 + r.IntN(1<<20))
		for k := 0; k < 400000; k++ {
			cid := base + types.ServiceID(k)
			if used[cid] {
				continue
			}
			nid := PVM.I(types.PartialStateSet{ServiceAccounts: types.ServiceAccountState{}}, cid, sc.tau+1, sc.eta[0], nil).ImportServiceID
			if other, ok := seen[nid]; ok {
				for ci, c := range []types.ServiceID{other, cid} {
					sc.delta[c] = v22Account(v22CreatorCode(byte(0x40+ci)), 1<<40)
					var w types.WorkReport
					copy(w.PackageSpec.Hash[:], r.Bytes(32))
					w.Results = []types.WorkResult{{ServiceID: c, AccumulateGas: types.Gas(3000), Result: types.WorkExecResult{Type: types.WorkExecResultOk}}}
					sc.reports = append(sc.reports, w)
				}
				sc.collide = true
				plan = append(plan, fmt.Sprintf("creators %d and %d both derive new id %d", other, cid, nid))
				break
			}
			seen[nid] = cid
		}
	}
	for _, n := range perRecv {
		if n > sc.maxToOne {
			sc.maxToOne = n
		}
	}
	// a privileged service without code holds bless / designate / registrar / assign
	priv := types.ServiceID(999)
	sc.delta[priv] = types.ServiceAccount{ServiceInfo: types.ServiceInfo{Balance: 1000}, PreimageLookup: types.PreimagesMapEntry{}, LookupDict: types.LookupMetaMapEntry{}, StorageDict: types.Storage{}}
	sc.chi = types.Privileges{Bless: priv, Designate: priv, CreateAcct: priv, Assign: make(types.ServiceIDList, types.CoresCount), AlwaysAccum: types.AlwaysAccumulateMap{}}
	for c := range sc.chi.Assign {
		sc.chi.Assign[c] = priv
	}
	sc.desc = fmt.Sprintf("receivers %v, senders %s, countdown %d", sc.receivers, strings.Join(plan, " "), spin)
	sc.idMode, sc.spin, sc.hybrid = idMode, spin, hybrid
	if hybrid {
		sc.desc += ", first sender yields and also receives"
	}
	return sc
}

func v22DeepDelta(d types.ServiceAccountState) types.ServiceAccountState {
	out := types.ServiceAccountState{}
	for id, a := range d {
		c := types.ServiceAccount{ServiceInfo: a.ServiceInfo, PreimageLookup: types.PreimagesMapEntry{}, LookupDict: types.LookupMetaMapEntry{}, StorageDict: types.Storage{}}
		for k, v := range a.PreimageLookup {
			c.PreimageLookup[k] = append(types.ByteSequence{}, v...)
		}
		for k, v := range a.LookupDict {
			c.LookupDict[k] = append(types.TimeSlotSet{}, v...)
		}
		for k, v := range a.StorageDict {
			c.StorageDict[k] = append(types.ByteSequence{}, v...)
		}
		out[id] = c
	}
	return out
}

func v22Enc(v any) string {
	b, err := types.NewEncoder().Encode(v)
	if err != nil {
		return "encode-error:" + err.Error()
	}
	s := sha256.Sum256(b)
	return fmt.Sprintf("%d:%x", len(b), s[:8])
}

// v22Run executes one accumulation from a fresh copy of the scenario's prior state and returns the projection.
// v22TwoOutputs: the last run's output log held two entries of one service
var v22TwoOutputs bool
var v22Outputs int

func v22Run(sc *v22Scenario) (proj map[string]string, err error, recorded map[types.ServiceID][]byte) {
	blockchain.ResetInstance()
	cs := blockchain.GetInstance()
	cs.AddBlock(types.Block{Header: types.Header{Slot: sc.tau + 1}})
	ps := cs.GetPriorStates()
	ps.SetDelta(v22DeepDelta(sc.delta))
	chi := sc.chi
	chi.Assign = append(types.ServiceIDList{}, sc.chi.Assign...)
	chi.AlwaysAccum = types.AlwaysAccumulateMap{}
	ps.SetChi(chi)
	ps.SetTau(sc.tau)
	ps.SetIota(make(types.ValidatorsData, types.ValidatorsCount))
	varphi := make(types.AuthQueues, types.CoresCount)
	for i := range varphi {
		varphi[i] = make(types.AuthQueue, types.AuthQueueSize)
	}
	ps.SetVarphi(varphi)
	ps.SetXi(make(types.AccumulatedQueue, types.EpochLength))
	ps.SetVartheta(make(types.ReadyQueue, types.EpochLength))
	cs.GetPosteriorStates().SetTau(sc.tau + 1)
	cs.GetPosteriorStates().SetEta(sc.eta)
	reports := append([]types.WorkReport{}, sc.reports...)
	cs.GetIntermediateStates().SetAccumulatableWorkReports(reports)
	cs.GetIntermediateStates().SetQueuedWorkReports(types.ReadyQueueItem{})
	err = DeferredTransfers()
	if err != nil {
		return nil, err, nil
	}
	proj = map[string]string{}
	recorded = map[types.ServiceID][]byte{}
	dd := cs.GetIntermediateStates().GetDeltaDoubleDagger()
	for id, a := range dd {
		var parts []string
		parts = append(parts, fmt.Sprintf("info=%+v", a.ServiceInfo))
		var ks []string
		for k, v := range a.StorageDict {
			s := sha256.Sum256(v)
			ks = append(ks, fmt.Sprintf("s[%x]=%d:%x", k, len(v), s[:8]))
			if k == "o" {
				recorded[id] = append([]byte(nil), v...)
			}
		}
		for k, v := range a.PreimageLookup {
			ks = append(ks, fmt.Sprintf("p[%x]=%d", k[:6], len(v)))
		}
		for k, v := range a.LookupDict {
			ks = append(ks, fmt.Sprintf("l[%x,%d]=%v", k.Hash[:6], k.Length, v))
		}
		sort.Strings(ks)
		proj[fmt.Sprintf("account %d", id)] = strings.Join(append(parts, ks...), " ")
	}
	post := cs.GetPosteriorStates()
	pchi := post.GetChi()
	proj["privileges"] = v22Enc(&pchi)
	pv := post.GetVarphi()
	proj["auth queues"] = v22Enc(&pv)
	pi := post.GetIota()
	proj["next validators"] = v22Enc(&pi)
	th := post.GetLastAccOut()
	proj["accumulation outputs"] = v22Enc(&th)
	v22TwoOutputs = false
	v22Outputs = len(th)
	for i := 1; i < len(th); i++ {
		if th[i].ServiceID == th[i-1].ServiceID {
			v22TwoOutputs = true
		}
	}
	xi := post.GetXi()
	proj["accumulated history"] = v22Enc(&xi)
	vt := post.GetVartheta()
	proj["ready queue"] = v22Enc(&vt)
	st := cs.GetIntermediateStates().GetAccumulationStatistics()
	var ss []string
	for id, g := range st {
		ss = append(ss, fmt.Sprintf("%d:%d/%d", id, g.Gas, g.NumAccumulatedReports))
	}
	sort.Strings(ss)
	proj["gas statistics"] = strings.Join(ss, " ")
	raw := cs.GetPostStateUnmatchedKeyVals()
	var rs []string
	for _, kv := range raw {
		rs = append(rs, fmt.Sprintf("%x=%x", kv.Key[:], kv.Value))
	}
	sort.Strings(rs)
	proj["raw key-values (as a set)"] = strings.Join(rs, " ")
	return proj, nil, recorded
}

// v22Order decodes "sender-tag:counter" of every transfer recorded by a receiver.
func v22Order(b []byte) string {
	if len(b) == 0 {
		return "(nothing recorded)"
	}
	n := int(b[0])
	off := 1
	if b[0] >= 128 { // two-byte count
		n = int(b[0]&0x3F)<<8 | int(b[1])
		off = 2
	}
	var out []string
	for i := 0; i < n && off+153 <= len(b); i++ {
		it := b[off : off+153]
		if it[0] != 1 {
			return fmt.Sprintf("(item %d is not a transfer)", i)
		}
		sender := binary.LittleEndian.Uint32(it[1:5])
		out = append(out, fmt.Sprintf("%d#%d", sender, it[1+16+2]))
		off += 153
	}
	return strings.Join(out, " ")
}

func TestVerifC22(t *testing.T) {
	h := vh.Open(t, "C22")
	defer h.Done()
	types.SetTinyMode()
	defaultWorkers := types.MaxWorkers
	defer func() { types.MaxWorkers = defaultWorkers }()
	n := h.N(120, 2400)
	for ci := 0; ci < n; ci++ {
		if !h.Mine("round", ci) {
			continue
		}
		r := h.Rng("round", ci)
		sc := v22Gen(r)
		h.Case("round", ci, "", map[string]any{"scenario": sc.desc})
		runs := 12 + r.IntN(13)
		var first map[string]string
		var firstRec map[types.ServiceID][]byte
		ok := true
		for k := 0; k < runs && ok; k++ {
			types.MaxWorkers = []int{1, 2, 32}[k%3]
			procs := []int{16, 1, 2}[(k/3)%3]
			old := runtime.GOMAXPROCS(procs)
			var proj map[string]string
			var rec map[types.ServiceID][]byte
			var err error
			pn, msg, st := vh.Guard(func() { proj, err, rec = v22Run(&sc) })
			runtime.GOMAXPROCS(old)
			d := map[string]any{"scenario": sc.desc, "run": k, "max_workers": types.MaxWorkers, "gomaxprocs": procs}
			if pn {
				d["panic"], d["stack"] = msg, st
				h.Viol("round", ci, "", "accumulation panicked", d)
				ok = false
				break
			}
			if err != nil {
				d["err"] = err.Error()
				h.Viol("round", ci, "", "accumulation returned an error on a well-formed round", d)
				ok = false
				break
			}
			if k == 0 {
				first, firstRec = proj, rec
				// the scenario must really have delivered its transfers, otherwise nothing is being compared
				got := 0
				for _, id := range sc.receivers {
					if b := rec[id]; len(b) > 1 {
						got += (len(b) - 1) / 153
					}
				}
				h.Count("transfers_recorded_by_receivers", int64(got))
				h.Count("entries_in_the_output_logs", int64(v22Outputs))
				if v22TwoOutputs {
					h.Inc("rounds_whose_output_log_has_two_entries_of_one_service")
				}
				if got == 0 {
					h.Inc("rounds_without_recorded_transfers")
				}
				continue
			}
			var diff []string
			for key, v := range first {
				if proj[key] != v {
					diff = append(diff, key)
				}
			}
			for key := range proj {
				if _, in := first[key]; !in {
					diff = append(diff, key)
				}
			}
			if len(diff) > 0 {
				sort.Strings(diff)
				d["differs_in"] = fmt.Sprint(diff)
				for _, id := range sc.receivers {
					if string(firstRec[id]) != string(rec[id]) {
						d[fmt.Sprintf("receiver_%d_order_run0", id)] = v22Order(firstRec[id])
						d[fmt.Sprintf("receiver_%d_order_run%d", id, k)] = v22Order(rec[id])
					}
				}
				h.Viol("round", ci, "", "two accumulations of the same reports on the same prior state differ", d)
				ok = false
			}
			h.Inc("repeated_runs_compared")
		}
		h.Inc("rounds")
		h.Inc([]string{"rounds_with_small_service_ids", "rounds_with_random_32_bit_service_ids", "rounds_with_boundary_service_ids"}[sc.idMode])
		if sc.spin > 0 {
			h.Inc("rounds_with_long_running_senders")
		}
		if sc.hybrid {
			h.Inc("rounds_with_a_service_accumulated_in_two_batches")
		}
		if sc.collide {
			h.Inc("rounds_with_two_creators_deriving_the_same_new_service_id")
		}
		if sc.maxToOne >= 13 {
			h.Inc("rounds_with_more_than_a_dozen_transfers_to_one_receiver")
		}
		h.Distinct(sc.desc)
		if ci < 2 {
			h.Sample(map[string]any{"scenario": sc.desc, "runs": runs, "order_seen_by_first_receiver": v22Order(firstRec[sc.receivers[0]])})
		}
	}
}
