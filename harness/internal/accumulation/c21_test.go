package accumulation

import (
	"bytes"
	"fmt"
	"sort"
	"testing"

	"github.com/New-JAMneration/JAM-Protocol/internal/blockchain"
	"github.com/New-JAMneration/JAM-Protocol/internal/types"
	"github.com/New-JAMneration/JAM-Protocol/internal/zzverif/vh"
)

// ---- model: GP 12.4 - 12.12, 12.31 - 12.33 written from the equations (dependency sets are sets) ----------

type vH = types.WorkPackageHash

type vRec struct {
	h    vH
	deps map[vH]bool
}

func vModelD(w types.WorkReport) vRec {
	d := map[vH]bool{}
	for _, p := range w.Context.Prerequisites {
		d[vH(p)] = true
	}
	for _, l := range w.SegmentRootLookup {
		d[l.WorkPackageHash] = true
	}
	return vRec{h: w.PackageSpec.Hash, deps: d}
}

func vModelE(r []vRec, x map[vH]bool) []vRec {
	var out []vRec
	for _, it := range r {
		if x[it.h] {
			continue
		}
		d := map[vH]bool{}
		for k := range it.deps {
			if !x[k] {
				d[k] = true
			}
		}
		out = append(out, vRec{h: it.h, deps: d})
	}
	return out
}

func vModelQ(r []vRec) []vH {
	var g []vH
	gs := map[vH]bool{}
	for _, it := range r {
		if len(it.deps) == 0 {
			g = append(g, it.h)
			gs[it.h] = true
		}
	}
	if len(g) == 0 {
		return nil
	}
	return append(g, vModelQ(vModelE(r, gs))...)
}

type vAccState struct {
	xi  [][]vH   // E entries (sets)
	rdy [][]vRec // E entries
}

type vAccResult struct {
	wbang, wstar []vH
	wq           []vRec
	xi           [][]vH
	rdy          [][]vRec
}

func vModelBlock(st vAccState, W []types.WorkReport, tau, tauP int, nCut func(int) int) vAccResult {
	E := len(st.xi)
	m := tauP % E
	allXi := map[vH]bool{}
	for _, s := range st.xi {
		for _, h := range s {
			allXi[h] = true
		}
	}
	var res vAccResult
	var withDeps []vRec
	bang := map[vH]bool{}
	for _, w := range W {
		if len(w.Context.Prerequisites) == 0 && len(w.SegmentRootLookup) == 0 {
			res.wbang = append(res.wbang, w.PackageSpec.Hash)
			bang[w.PackageSpec.Hash] = true
		} else {
			withDeps = append(withDeps, vModelD(w))
		}
	}
	res.wq = vModelE(withDeps, allXi)
	var comp []vRec
	for i := m; i < E; i++ {
		comp = append(comp, st.rdy[i]...)
	}
	for i := 0; i < m; i++ {
		comp = append(comp, st.rdy[i]...)
	}
	comp = append(comp, res.wq...)
	res.wstar = append(append([]vH(nil), res.wbang...), vModelQ(vModelE(comp, bang))...)
	n := nCut(len(res.wstar))
	last := map[vH]bool{}
	for _, h := range res.wstar[:n] {
		last[h] = true
	}
	res.xi = make([][]vH, E)
	for i := 0; i < E-1; i++ {
		res.xi[i] = st.xi[i+1]
	}
	for h := range last {
		res.xi[E-1] = append(res.xi[E-1], h)
	}
	res.rdy = make([][]vRec, E)
	for i := 0; i < E; i++ {
		idx := ((m-i)%E + E) % E
		switch {
		case i == 0:
			res.rdy[idx] = vModelE(res.wq, last)
		case i < tauP-tau:
			res.rdy[idx] = nil
		default:
			res.rdy[idx] = vModelE(st.rdy[idx], last)
		}
	}
	return res
}

// ---- conversions / canonical text --------------------------------------------------------------------------------

func vHs(hs []vH) string {
	s := ""
	for _, h := range hs {
		s += fmt.Sprintf("%x ", h[:2])
	}
	return s
}

func vSetText(hs []vH) string {
	c := append([]vH(nil), hs...)
	sort.Slice(c, func(i, j int) bool { return bytes.Compare(c[i][:], c[j][:]) < 0 })
	out := c[:0]
	for i, h := range c {
		if i == 0 || h != c[i-1] {
			out = append(out, h)
		}
	}
	return vHs(out)
}

func vRecsText(rs []vRec) string {
	s := ""
	for _, r := range rs {
		var d []vH
		for k := range r.deps {
			d = append(d, k)
		}
		s += fmt.Sprintf("%x<-{%s} ", r.h[:2], vSetText(d))
	}
	return s
}

func vImplRecsText(q types.ReadyQueueItem) string {
	s := ""
	for _, r := range q {
		s += fmt.Sprintf("%x<-{%s} ", r.Report.PackageSpec.Hash[:2], vSetText(r.Dependencies))
	}
	return s
}

func vReport(h vH, deps []vH, r vh.R) types.WorkReport {
	w := types.WorkReport{}
	w.PackageSpec.Hash = h
	for _, d := range deps {
		switch r.IntN(4) {
		case 0:
			w.SegmentRootLookup = append(w.SegmentRootLookup, types.SegmentRootLookupItem{WorkPackageHash: d})
		case 1: // in both (a duplicate in the code's dependency slice)
			w.SegmentRootLookup = append(w.SegmentRootLookup, types.SegmentRootLookupItem{WorkPackageHash: d})
			w.Context.Prerequisites = append(w.Context.Prerequisites, types.OpaqueHash(d))
		default:
			w.Context.Prerequisites = append(w.Context.Prerequisites, types.OpaqueHash(d))
		}
	}
	w.Results = []types.WorkResult{{}}
	return w
}

func vHash(tag byte, i int) vH {
	var h vH
	h[0], h[1], h[2], h[3] = tag, byte(i>>8), byte(i), 0x5A
	return h
}

// vRunBlock drives the code through the singleton exactly as ProcessAccumulation / DeferredTransfers order the calls.
func vRunBlock(st vAccState, reports map[vH]types.WorkReport, W []types.WorkReport, tau, tauP int, nCut func(int) int) (res struct {
	wbang, wstar []vH
	wq           types.ReadyQueueItem
	xi           types.AccumulatedQueue
	rdy          types.ReadyQueue
}) {
	E := types.EpochLength
	blockchain.ResetInstance()
	cs := blockchain.GetInstance()
	cs.GetPriorStates().SetTau(types.TimeSlot(tau))
	cs.AddBlock(types.Block{Header: types.Header{Slot: types.TimeSlot(tauP)}})
	cs.GetPosteriorStates().SetTau(types.TimeSlot(tauP))
	xi := make(types.AccumulatedQueue, E)
	for i := range st.xi {
		xi[i] = append(types.AccumulatedQueueItem{}, st.xi[i]...)
	}
	rq := make(types.ReadyQueue, E)
	for i := range st.rdy {
		rq[i] = types.ReadyQueueItem{}
		for _, rec := range st.rdy[i] {
			var d []vH
			for k := range rec.deps {
				d = append(d, k)
			}
			sort.Slice(d, func(a, b int) bool { return bytes.Compare(d[a][:], d[b][:]) < 0 })
			rq[i] = append(rq[i], types.ReadyRecord{Report: reports[rec.h], Dependencies: d})
		}
	}
	cs.GetPriorStates().SetXi(xi)
	cs.GetPriorStates().SetVartheta(rq)
	cs.GetIntermediateStates().SetAvailableWorkReports(W)
	UpdateImmediatelyAccumulateWorkReports()
	UpdateQueuedWorkReports()
	UpdateAccumulatableWorkReports()
	res.wbang = ExtractWorkReportHashes(cs.GetIntermediateStates().GetAccumulatedWorkReports())
	res.wq = cs.GetIntermediateStates().GetQueuedWorkReports()
	res.wstar = ExtractWorkReportHashes(cs.GetIntermediateStates().GetAccumulatableWorkReports())
	n := nCut(len(res.wstar))
	updateXi(cs, types.U64(n))
	updateVartheta(cs)
	res.xi = cs.GetPosteriorStates().GetXi()
	res.rdy = cs.GetPosteriorStates().GetVartheta()
	return
}

// vCompare judges one block; returns "" or the class of the first difference.
func vCompare(h *vh.H, stratum string, ci int, st vAccState, reports map[vH]types.WorkReport, W []types.WorkReport, tau, tauP int, cutFrac int, precond bool) (vAccResult, bool) {
	nCut := func(n int) int {
		if cutFrac < 0 || n == 0 {
			return n
		}
		return cutFrac % (n + 1)
	}
	want := vModelBlock(st, W, tau, tauP, nCut)
	var got struct {
		wbang, wstar []vH
		wq           types.ReadyQueueItem
		xi           types.AccumulatedQueue
		rdy          types.ReadyQueue
	}
	d := map[string]any{"tau": tau, "tau'": tauP, "available": len(W), "cut": cutFrac}
	if pn, msg, stk := vh.Guard(func() { got = vRunBlock(st, reports, W, tau, tauP, nCut) }); pn {
		d["panic"], d["stack"] = msg, stk
		h.Viol(stratum, ci, "", "accumulation queue: go panic", d)
		return want, false
	}
	var wl []string
	for _, w := range W {
		wl = append(wl, fmt.Sprintf("%x<-{%s}", w.PackageSpec.Hash[:2], vSetText(vModelD(w).depsList())))
	}
	d["W"] = fmt.Sprint(wl)
	ok := true
	fail := func(class string, g, w string) {
		if ok {
			d["got"], d["model"] = g, w
			h.Viol(stratum, ci, "", "accumulation queue: "+class, d)
		}
		ok = false
	}
	if vHs(got.wbang) != vHs(want.wbang) {
		fail("W! differs from the model", vHs(got.wbang), vHs(want.wbang))
	}
	if vImplRecsText(got.wq) != vRecsText(want.wq) {
		fail("WQ differs from the model", vImplRecsText(got.wq), vRecsText(want.wq))
	}
	if vHs(got.wstar) != vHs(want.wstar) {
		fail("W* (selection or order) differs from the model", vHs(got.wstar), vHs(want.wstar))
	}
	for i := range want.xi {
		if vSetText(got.xi[i]) != vSetText(want.xi[i]) {
			fail(fmt.Sprintf("xi'[%d] differs from the model", i), vSetText(got.xi[i]), vSetText(want.xi[i]))
		}
	}
	for i := range want.rdy {
		if vImplRecsText(got.rdy[i]) != vRecsText(want.rdy[i]) {
			fail(fmt.Sprintf("ready queue'[%d] differs from the model (m=%d)", i, tauP%len(want.rdy)), vImplRecsText(got.rdy[i]), vRecsText(want.rdy[i]))
		}
	}
	if !ok {
		return want, false
	}
	// ---- the stated invariants, on the code's own output ----------------------------------------------------
	pos := map[vH]int{}
	for i, x := range got.wstar {
		if _, dup := pos[x]; dup && precond {
			fail("a report is chosen twice in W*", vHs(got.wstar), "")
		}
		pos[x] = i
	}
	if precond {
		inXi := map[vH]bool{}
		for _, s := range st.xi {
			for _, x := range s {
				inXi[x] = true
			}
		}
		for _, x := range got.wstar {
			if inXi[x] {
				fail("a report of the accumulated history is chosen again", vHs(got.wstar), "")
			}
		}
		// order: a chosen report that depends on another chosen report comes after it
		for _, x := range got.wstar {
			for dep := range vModelD(reports[x]).deps {
				if p, chosen := pos[dep]; chosen && dep != x && p > pos[x] {
					fail("a report is listed before the in-block report it depends on", vHs(got.wstar), "")
				}
			}
		}
		newXi := map[vH]bool{}
		for _, s := range got.xi {
			for _, x := range s {
				newXi[x] = true
			}
		}
		for i, q := range got.rdy {
			for _, rec := range q {
				if newXi[rec.Report.PackageSpec.Hash] {
					fail(fmt.Sprintf("ready queue'[%d] keeps an accumulated report", i), vImplRecsText(q), "")
				}
				for _, dep := range rec.Dependencies {
					if newXi[dep] {
						fail(fmt.Sprintf("ready queue'[%d] keeps a dependency that is already accumulated", i), vImplRecsText(q), "")
					}
				}
			}
		}
	}
	return want, ok
}

func (r vRec) depsList() []vH {
	var d []vH
	for k := range r.deps {
		d = append(d, k)
	}
	return d
}

func TestVerifC21(t *testing.T) {
	h := vh.Open(t, "C21")
	defer h.Done()
	types.SetTinyMode()
	E := types.EpochLength

	// ---- stratum 1: every dependency graph on 1..3 reports -------------------------------------------------------
	// each report's dependency set is any subset of {the other reports, itself, an unknown hash, a hash in xi};
	// each report is either freshly available or sits in a ready-queue slot (all placements).
	xiHash, unknown := vHash(0xE1, 0), vHash(0xEE, 0)
	gi := 0
	for k := 1; k <= 3; k++ {
		opts := k + 2 // bits: k reports (incl. itself), unknown, xi
		total := 1
		for i := 0; i < k; i++ {
			total *= 1 << uint(opts)
		}
		for g := 0; g < total; g++ {
			for place0 := 0; place0 < 2<<uint(k); place0++ {
				// second half of the placements (every third graph, k >= 2): the LAST report carries the package hash of the first —
				// two different reports of one package in the same block / queue (GP 12.7 drops a record whose own package is selected)
				place, dupe := place0&(1<<uint(k)-1), place0>>uint(k) == 1
				if dupe && (k < 2 || g%3 != 0) {
					continue
				}
				ci := gi
				gi++
				if !h.Mine("graph", ci) {
					continue
				}
				h.CaseLight("graph", ci)
				r := h.Rng("graph", ci)
				hs := make([]vH, k)
				for i := range hs {
					hs[i] = vHash(0xA0, i)
				}
				if dupe {
					hs[k-1] = hs[0]
					h.Inc("graphs_with_two_reports_of_one_package")
				}
				reports := map[vH]types.WorkReport{}
				st := vAccState{xi: make([][]vH, E), rdy: make([][]vRec, E)}
				st.xi[r.IntN(E)] = []vH{xiHash}
				var W []types.WorkReport
				tauP := 20 + r.IntN(2*E)
				tau := tauP - 1
				x := g
				for i := 0; i < k; i++ {
					bits := x & (1<<uint(opts) - 1)
					x >>= uint(opts)
					var deps []vH
					for j := 0; j < k; j++ {
						if bits&(1<<uint(j)) != 0 {
							deps = append(deps, hs[j])
						}
					}
					if bits&(1<<uint(k)) != 0 {
						deps = append(deps, unknown)
					}
					if bits&(1<<uint(k+1)) != 0 {
						deps = append(deps, xiHash)
					}
					w := vReport(hs[i], deps, r)
					reports[hs[i]] = w
					if place&(1<<uint(i)) != 0 {
						// a queued report has had its accumulated dependencies edited out already
						rec := vModelD(w)
						delete(rec.deps, xiHash)
						slot := r.IntN(E)
						st.rdy[slot] = append(st.rdy[slot], rec)
					} else {
						W = append(W, w)
					}
				}
				if _, ok := vCompare(h, "graph", ci, st, reports, W, tau, tauP, -1, !dupe); ok {
					h.Inc("graphs_compared")
				}
				h.Distinct("graph", k, g, place0)
				if ci == 70 {
					h.Sample(map[string]any{"stratum": "graph", "reports": k, "graph_code": g, "placement": place})
				}
			}
		}
	}

	// ---- stratum 2: histories ------------------------------------------------------------------------------------------
	n := h.N(1500, 40000)
	for ci := 0; ci < n; ci++ {
		if !h.Mine("hist", ci) {
			continue
		}
		h.CaseLight("hist", ci)
		r := h.Rng("hist", ci)
		st := vAccState{xi: make([][]vH, E), rdy: make([][]vRec, E)}
		reports := map[vH]types.WorkReport{}
		next := 0
		var future []vH // hashes of reports that will only become available in a later block
		var known []vH
		hiBase := 0
		if r.IntN(4) == 0 { // high up in the 32-bit slot range (epoch-aligned): narrowed or signed slot arithmetic goes wrong only there
			hiBase = []int{(1 << 16) / E, (1<<16)/E - 1, (1 << 31) / E, (1<<31)/E - 1, (1<<32)/E - 60}[r.IntN(5)] * E
			h.Inc("histories_high_in_the_slot_range")
		}
		tau := hiBase + 10 + r.IntN(100)
		blocks := 2 + r.IntN(28)
		sig := []byte{}
		for b := 0; b < blocks; b++ {
			gap := []int{1, 1, 1, 2, 3, E - 1, E, E + 1}[r.IntN(8)]
			tauP := tau + gap
			nw := r.IntN(7)
			if r.IntN(6) == 0 {
				nw = 7 + r.IntN(6)
			}
			// hashes of this block's reports: some were announced as dependencies earlier ("future")
			blockHs := make([]vH, nw)
			for i := range blockHs {
				if len(future) > 0 && r.IntN(3) == 0 {
					blockHs[i] = future[0]
					future = future[1:]
				} else {
					blockHs[i] = vHash(0xB0, next)
					next++
				}
			}
			var W []types.WorkReport
			for i := range blockHs {
				var deps []vH
				for nd := []int{0, 0, 1, 1, 2, 3}[r.IntN(6)]; nd > 0; nd-- {
					switch r.IntN(7) {
					case 0, 1: // another report of this block
						deps = append(deps, blockHs[r.IntN(nw)])
					case 2: // something already known (accumulated, queued, or lost)
						if len(known) > 0 {
							deps = append(deps, known[r.IntN(len(known))])
						}
					case 3: // accumulated recently
						s := st.xi[E-1-r.IntN(3)]
						if len(s) > 0 {
							deps = append(deps, s[r.IntN(len(s))])
						}
					case 4: // a report that arrives in a later block
						f := vHash(0xB0, next)
						next++
						future = append(future, f)
						deps = append(deps, f)
					case 5: // a report waiting in the ready queue
						q := st.rdy[r.IntN(E)]
						if len(q) > 0 {
							deps = append(deps, q[r.IntN(len(q))].h)
						}
					default: // never appears
						deps = append(deps, vHash(0xEE, r.IntN(4)))
					}
				}
				w := vReport(blockHs[i], deps, r)
				reports[blockHs[i]] = w
				W = append(W, w)
			}
			known = append(known, blockHs...)
			cut := -1
			if r.IntN(4) == 0 {
				cut = r.IntN(1000)
			}
			want, ok := vCompare(h, "hist", ci, st, reports, W, tau, tauP, cut, true)
			if !ok {
				break
			}
			h.Inc("blocks_compared")
			if gap > 1 {
				h.Inc("blocks_after_a_slot_gap")
			}
			if gap >= E {
				h.Inc("blocks_after_a_gap_of_an_epoch_or_more")
			}
			if len(want.wstar) > len(want.wbang) {
				h.Inc("blocks_releasing_queued_reports")
			}
			if cut >= 0 && len(want.wstar) > 0 && cut%(len(want.wstar)+1) < len(want.wstar) {
				h.Inc("blocks_with_gas_cut")
			}
			chain := 0
			for _, x := range want.wstar[len(want.wbang):] {
				for dep := range vModelD(reports[x]).deps {
					for _, y := range want.wstar {
						if y == dep {
							chain++
						}
					}
				}
			}
			if chain > 0 {
				h.Inc("blocks_with_in_block_dependency_order_checked")
			}
			st = vAccState{xi: want.xi, rdy: want.rdy}
			tau = tauP
			sig = append(sig, byte(len(want.wstar)), byte(len(want.wq)), byte(gap))
			if ci < 2 && b == blocks-1 {
				h.Sample(map[string]any{"stratum": "hist", "blocks": blocks, "last_W*": vHs(want.wstar), "last_gap": gap})
			}
		}
		h.Distinct("hist", ci, sig)
	}
}
