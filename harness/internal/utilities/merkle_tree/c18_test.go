package merkle_tree

import (
	"bytes"
	"fmt"
	"testing"

	"github.com/New-JAMneration/JAM-Protocol/internal/types"
	"github.com/New-JAMneration/JAM-Protocol/internal/utilities/hash"
	"github.com/New-JAMneration/JAM-Protocol/internal/zzverif/vh"
)

// ---- reference model (GP E.1) on an explicit tree -------------------------------------------

type hfn func(types.ByteSequence) types.OpaqueHash

type rnode struct {
	val  []byte
	l, r *rnode
	lo   int
	hi   int
}

func rbuild(v [][]byte, lo, hi int, hf hfn) *rnode {
	n := hi - lo
	switch {
	case n == 0:
		return &rnode{val: make([]byte, 32), lo: lo, hi: hi}
	case n == 1:
		return &rnode{val: v[lo], lo: lo, hi: hi}
	}
	mid := lo + (n+1)/2
	l, r := rbuild(v, lo, mid, hf), rbuild(v, mid, hi, hf)
	h := hf(cat([]byte("node"), l.val, r.val))
	return &rnode{val: h[:], l: l, r: r, lo: lo, hi: hi}
}

func cat(parts ...[]byte) types.ByteSequence {
	var out []byte
	for _, p := range parts {
		out = append(out, p...)
	}
	return out
}

// rtrace: siblings from the root down to leaf i, and whether we went left at each level.
func rtrace(n *rnode, i int) (sib [][]byte, left []bool) {
	for n.l != nil {
		if i < n.l.hi {
			sib = append(sib, n.r.val)
			left = append(left, true)
			n = n.l
		} else {
			sib = append(sib, n.l.val)
			left = append(left, false)
			n = n.r
		}
	}
	return
}

func rfold(start []byte, sib [][]byte, left []bool, hf hfn) []byte {
	cur := start
	for k := len(sib) - 1; k >= 0; k-- {
		var h types.OpaqueHash
		if left[k] {
			h = hf(cat([]byte("node"), cur, sib[k]))
		} else {
			h = hf(cat([]byte("node"), sib[k], cur))
		}
		cur = h[:]
	}
	return cur
}

func rC(v [][]byte, hf hfn) [][]byte {
	sz := 1
	for sz < len(v) {
		sz *= 2
	}
	out := make([][]byte, sz)
	for i := range out {
		if i < len(v) {
			h := hf(cat([]byte("leaf"), v[i]))
			out[i] = h[:]
		} else {
			out[i] = make([]byte, 32)
		}
	}
	return out
}

func toBS(v [][]byte) []types.ByteSequence {
	out := make([]types.ByteSequence, len(v))
	for i := range v {
		out[i] = v[i] // keeps nil as nil
	}
	return out
}

func desc(v [][]byte) []string {
	out := make([]string, len(v))
	for i, e := range v {
		if e == nil {
			out[i] = "nil"
		} else {
			out[i] = vh.Hex(e)
		}
	}
	return out
}

func TestVerifC18(t *testing.T) {
	h := vh.Open(t, "C18")
	defer h.Done()
	hashes := []struct {
		name string
		f    hfn
	}{{"blake2b", hash.Blake2bHash}, {"keccak", hash.KeccakHash}}

	run := func(stratum string, ci int, v [][]byte, hname string, hf hfn) {
		n := len(v)
		viol := func(class string, d map[string]any) {
			d["hash"] = hname
			d["len"] = n
			if n <= 8 {
				d["v"] = desc(v)
			}
			h.Viol(stratum, ci, "", class, d)
		}
		root := rbuild(v, 0, n, hf)
		bs := toBS(v)
		// N
		var gotN types.ByteSequence
		if p, msg, st := vh.Guard(func() { gotN = N(bs, hf) }); p {
			viol("N-panic", map[string]any{"panic": msg, "stack": st})
		} else if !bytes.Equal(gotN, root.val) {
			viol("N-differs", map[string]any{"got": vh.Hex(gotN), "model": vh.Hex(root.val)})
		}
		// Mb
		wantMb := root.val
		if n == 1 {
			x := hf(v[0])
			wantMb = x[:]
		}
		var gotMb types.OpaqueHash
		if p, msg, st := vh.Guard(func() { gotMb = Mb(bs, hf) }); p {
			viol("Mb-panic", map[string]any{"panic": msg, "stack": st})
		} else if !bytes.Equal(gotMb[:], wantMb) {
			viol("Mb-differs", map[string]any{"got": vh.Hex(gotMb[:]), "model": vh.Hex(wantMb)})
		}
		// C and M
		cm := rC(v, hf)
		croot := rbuild(cm, 0, len(cm), hf)
		var gotC []types.OpaqueHash
		var gotM types.OpaqueHash
		if p, msg, st := vh.Guard(func() { gotC = C(bs, hf); gotM = M(bs, hf) }); p {
			viol("C/M-panic", map[string]any{"panic": msg, "stack": st})
		} else {
			okC := len(gotC) == len(cm)
			for i := 0; okC && i < len(cm); i++ {
				okC = bytes.Equal(gotC[i][:], cm[i])
			}
			if !okC {
				viol("C-differs", map[string]any{"got_len": len(gotC), "model_len": len(cm)})
			}
			if !bytes.Equal(gotM[:], croot.val) {
				viol("M-differs", map[string]any{"got": vh.Hex(gotM[:]), "model": vh.Hex(croot.val)})
			}
		}
		h.Inc("roots_compared")
		// traces for every index
		for i := 0; i < n; i++ {
			sib, left := rtrace(root, i)
			if f := rfold(v[i], sib, left, hf); !bytes.Equal(f, root.val) && n > 1 {
				viol("MODEL-BUG fold", map[string]any{"i": i})
			}
			var got []types.ByteSequence
			if p, msg, st := vh.Guard(func() { got = T(bs, types.U32(i), hf) }); p {
				viol("T-panic", map[string]any{"i": i, "panic": msg, "stack": st})
				continue
			}
			same := len(got) == len(sib)
			for k := 0; same && k < len(sib); k++ {
				same = bytes.Equal(got[k], sib[k])
			}
			if !same {
				g := make([][]byte, len(got))
				for k := range got {
					g[k] = got[k]
				}
				// does the code's own trace fold to its own root with any left/right choice? (it cannot if the split differs)
				viol("T-differs", map[string]any{"i": i, "got_len": len(got), "model_len": len(sib), "got": desc(g), "model": desc(sib)})
			}
			h.Inc("traces_compared")
		}
		// pages
		for x := 0; x <= 6; x++ {
			ps := 1 << x
			pages := (max(1, n) + ps - 1) / ps
			for i := 0; i < pages; i++ {
				lo, hi := min(i*ps, n), min((i+1)*ps, n)
				var gotL, gotJ []types.OpaqueHash
				if p, msg, st := vh.Guard(func() { gotL = Lx(types.U8(x), bs, types.U32(i), hf); gotJ = Jx(types.U8(x), bs, types.U32(i), hf) }); p {
					viol("Lx/Jx-panic", map[string]any{"x": x, "i": i, "panic": msg, "stack": st})
					continue
				}
				okL := len(gotL) == hi-lo
				for k := 0; okL && k < hi-lo; k++ {
					okL = bytes.Equal(gotL[k][:], cm[lo+k])
				}
				if !okL {
					viol("Lx-differs", map[string]any{"x": x, "i": i, "got_len": len(gotL), "want_len": hi - lo})
				}
				// Jx = first max(0, ceil(log2 max(1,n)) - x) entries of T(C(v), 2^x i)
				lg := 0
				for (1 << lg) < max(1, n) {
					lg++
				}
				want := max(0, lg-x)
				sib, left := rtrace(croot, i*ps)
				if want > len(sib) {
					viol("MODEL-BUG jx", map[string]any{"x": x, "i": i})
					continue
				}
				okJ := len(gotJ) == want
				for k := 0; okJ && k < want; k++ {
					okJ = bytes.Equal(gotJ[k][:], sib[k])
				}
				if !okJ {
					viol("Jx-differs", map[string]any{"x": x, "i": i, "got_len": len(gotJ), "want_len": want})
				} else {
					// fold the page's subtree root through the justification: must reach M(v)
					plo := i * ps
					phi := min(plo+ps, len(cm))
					sub := rbuild(cm, plo, phi, hf)
					jb := make([][]byte, want)
					for k := range jb {
						jb[k] = gotJ[k][:]
					}
					if f := rfold(sub.val, jb, left[:want], hf); !bytes.Equal(f, croot.val) {
						viol("Jx-does-not-fold", map[string]any{"x": x, "i": i})
					}
				}
				h.Inc("pages_compared")
			}
		}
		// single-element change must change Mb and M
		if n > 0 {
			r := h.Rng(stratum+"/chg", ci)
			i := r.IntN(n)
			w := make([][]byte, n)
			copy(w, v)
			w[i] = append(append([]byte{}, v[i]...), byte(r.IntN(256)))
			if r.Bool() && len(v[i]) > 0 {
				w[i] = append([]byte{}, v[i]...)
				w[i][r.IntN(len(w[i]))] ^= 1 << uint(r.IntN(8))
			}
			var m2, b2 types.OpaqueHash
			if p, _, _ := vh.Guard(func() { m2 = M(toBS(w), hf); b2 = Mb(toBS(w), hf) }); !p {
				if m2 == gotM {
					viol("M-unchanged-after-element-change", map[string]any{"i": i})
				}
				if b2 == gotMb {
					viol("Mb-unchanged-after-element-change", map[string]any{"i": i, "old": vh.Hex(v[i]), "new": vh.Hex(w[i])})
				}
				h.Inc("sensitivity_checks")
			}
		}
		if n > 1 {
			h.Distinct(hname, fmt.Sprint(desc(v)))
		}
	}

	elem := func(r vh.R, mode int) []byte {
		switch mode {
		case 0:
			return r.Bytes(r.IntN(41))
		case 1:
			return r.Bytes(32)
		case 2:
			switch r.IntN(4) {
			case 0:
				return nil
			case 1:
				return []byte{}
			default:
				return r.Bytes(r.IntN(41))
			}
		default:
			return r.Bytes(1 + r.IntN(3))
		}
	}

	// stratum: every length 0..70, several element modes, both hashes
	maxLen := 70
	reps := h.N(3, 12)
	ci := 0
	for n := 0; n <= maxLen; n++ {
		for rep := 0; rep < reps; rep++ {
			for mode := 0; mode < 4; mode++ {
				ci++
				if !h.Mine("len0-70", ci) {
					continue
				}
				h.CaseLight("len0-70", ci)
				r := h.Rng("len0-70", ci)
				v := make([][]byte, n)
				for i := range v {
					v[i] = elem(r, mode)
				}
				hs := hashes[ci%2]
				run("len0-70", ci, v, hs.name, hs.f)
				if ci%97 == 0 {
					h.Sample(map[string]any{"len": n, "mode": mode, "hash": hs.name, "first": desc(v[:min(3, n)])})
				}
			}
		}
	}
	// stratum: ONE element of every size 0..70 (a lone 32-byte element looks like a hash: Mb and N treat |v| = 1 specially), and
	// two / three elements of exactly 32 bytes, both hashes
	for sz := 0; sz <= 70; sz++ {
		for k := 1; k <= 3; k++ {
			ci := 100000 + sz*4 + k
			if !h.Mine("single", ci) || (k > 1 && sz != 32) {
				continue
			}
			h.CaseLight("single", ci)
			r := h.Rng("single", ci)
			v := make([][]byte, k)
			for i := range v {
				v[i] = r.Bytes(sz)
			}
			for _, hs := range hashes {
				run("single", ci, v, hs.name, hs.f)
			}
			h.Inc("single_element_sequences")
		}
	}
	// stratum: larger random lengths (thorough)
	nl := h.N(40, 600)
	for i := 0; i < nl; i++ {
		if !h.Mine("long", i) {
			continue
		}
		h.CaseLight("long", i)
		r := h.Rng("long", i)
		n := 71 + r.IntN(400)
		v := make([][]byte, n)
		for k := range v {
			v[k] = elem(r, i%3)
		}
		run("long", i, v, "blake2b", hash.Blake2bHash)
	}
	// VerifyMerkleProof with J0 on a few sequences (it prints to stdout, so keep it small)
	for n := 1; n <= 20; n++ {
		if !h.Mine("verify", n) {
			continue
		}
		h.CaseLight("verify", n)
		r := h.Rng("verify", n)
		v := make([][]byte, n)
		for k := range v {
			v[k] = r.Bytes(1 + r.IntN(8))
		}
		bs := toBS(v)
		root := M(bs, hash.Blake2bHash)
		for i := 0; i < n; i++ {
			pf := Jx(0, bs, types.U32(i), hash.Blake2bHash)
			if !VerifyMerkleProof(v[i], pf, i, hash.Blake2bHash, root) {
				h.Viol("verify", n, "", "VerifyMerkleProof-rejects-J0", map[string]any{"n": n, "i": i})
			}
			bad := append([]byte{0x55}, v[i]...)
			if VerifyMerkleProof(bad, pf, i, hash.Blake2bHash, root) {
				h.Viol("verify", n, "", "VerifyMerkleProof-accepts-wrong-leaf", map[string]any{"n": n, "i": i})
			}
			h.Inc("proofs_verified")
		}
	}
}
