package c15

import (
	"bytes"
	"testing"

	"github.com/New-JAMneration/JAM-Protocol/internal/types"
	"github.com/New-JAMneration/JAM-Protocol/internal/utilities/merklization"
	"github.com/New-JAMneration/JAM-Protocol/internal/zzverif/reftrie"
	"github.com/New-JAMneration/JAM-Protocol/internal/zzverif/vh"
)

// genKeys draws n distinct keys from prefix families sharing 0..247 leading bits.
func genKeys(r vh.R, n int) [][31]byte {
	seen := map[[31]byte]bool{}
	var out [][31]byte
	var fams [][31]byte
	nf := 1 + r.IntN(4)
	for i := 0; i < nf; i++ {
		var f [31]byte
		copy(f[:], r.Bytes(31))
		if i > 0 && r.Bool() { // families that themselves share a prefix
			share := r.IntN(248)
			for b := 0; b < share; b++ {
				f[b/8] = f[b/8]&^(0x80>>uint(b%8)) | fams[0][b/8]&(0x80>>uint(b%8))
			}
		}
		fams = append(fams, f)
	}
	for len(out) < n {
		k := fams[r.IntN(len(fams))]
		switch r.IntN(6) {
		case 0: // unrelated key
			copy(k[:], r.Bytes(31))
		case 1: // differs from the family only in the last bits
			d := 247 - r.IntN(8)
			k[d/8] ^= 0x80 >> uint(d%8)
		default: // shares `share` leading bits, random afterwards
			share := r.IntN(248)
			rnd := r.Bytes(31)
			for b := share; b < 248; b++ {
				k[b/8] = k[b/8]&^(0x80>>uint(b%8)) | rnd[b/8]&(0x80>>uint(b%8))
			}
			k[share/8] ^= 0x80 >> uint(share%8) // force divergence exactly at bit `share`
		}
		if !seen[k] {
			seen[k] = true
			out = append(out, k)
		}
	}
	return out
}

func genValue(r vh.R) []byte {
	switch r.IntN(8) {
	case 0:
		return []byte{}
	case 1:
		return r.Bytes(1)
	case 2:
		return r.Bytes(31)
	case 3:
		return r.Bytes(32)
	case 4:
		return r.Bytes(33)
	case 5:
		return r.Bytes(64)
	case 6:
		return nil
	default:
		if r.IntN(6) == 0 {
			// long values: whatever their length, they are hashed — also when the length is 0..32 modulo 256 (or 2^16)
			return r.Bytes([]int{255, 256, 257, 272, 287, 288, 289, 512, 544, 5120, 65536, 65536 + 16, 65536 + 32}[r.IntN(13)])
		}
		return r.Bytes(r.IntN(201))
	}
}

func TestVerifC15(t *testing.T) {
	h := vh.Open(t, "C15")
	defer h.Done()
	n := h.N(20000, 300000)
	maxEntries := h.N(200, 2000)
	maxDepth := 0
	for ci := 0; ci < n; ci++ {
		if !h.Mine("sets", ci) {
			continue
		}
		h.CaseLight("sets", ci)
		r := h.Rng("sets", ci)
		ne := r.IntN(9)
		if ci%4 == 0 {
			ne = r.IntN(maxEntries + 1)
		}
		keys := genKeys(r, ne)
		kvs := make([]reftrie.KV, ne)
		in := make(types.StateKeyVals, ne)
		for i := range keys {
			v := genValue(r)
			kvs[i] = reftrie.KV{Key: keys[i], Value: v}
			in[i] = types.StateKeyVal{Key: types.StateKey(keys[i]), Value: v}
		}
		want := reftrie.Root(kvs)
		if d := reftrie.Depth(kvs); d > maxDepth {
			maxDepth = d
		}
		// three permutations; the input slice must not be reordered or changed by the call
		for p := 0; p < 3; p++ {
			perm := vh.Shuffled(r, in)
			before := make(types.StateKeyVals, len(perm))
			copy(before, perm)
			var got types.StateRoot
			if pn, msg, st := vh.Guard(func() { got = merklization.MerklizationSerializedState(perm) }); pn {
				h.Viol("sets", ci, "", "merklize-panic", map[string]any{"entries": ne, "panic": msg, "stack": st})
				break
			}
			if !bytes.Equal(got[:], want[:]) {
				d := map[string]any{"entries": ne, "perm": p, "got": vh.Hex(got[:]), "model": vh.Hex(want[:])}
				if ne <= 4 {
					var es []map[string]string
					for _, e := range perm {
						es = append(es, map[string]string{"k": vh.Hex(e.Key[:]), "v": vh.Hex(e.Value)})
					}
					d["set"] = es
				}
				h.Viol("sets", ci, "", "root-differs-from-model", d)
				break
			}
			for i := range perm {
				if perm[i].Key != before[i].Key || !bytes.Equal(perm[i].Value, before[i].Value) {
					h.Viol("sets", ci, "", "input-slice-reordered-or-modified", map[string]any{"entries": ne, "index": i})
					break
				}
			}
			// cached variant with a pass-through cache callback must agree as well
			gotC := merklization.MerklizationSerializedStateWithCache(perm, func(k types.StateKey, v []byte) types.OpaqueHash {
				return merklization.EncodeLeafNodeHash(k, v)
			})
			if gotC != got {
				h.Viol("sets", ci, "", "withcache-root-differs", map[string]any{"entries": ne})
			}
		}
		if ne >= 2 {
			h.Distinct(want[:])
		}
		h.Count("entries", int64(ne))
		if ci < 2 || (ne == 2 && ci%50 == 0) {
			var es []map[string]string
			for _, e := range in[:min(2, ne)] {
				es = append(es, map[string]string{"k": vh.Hex(e.Key[:]), "v_len": string(rune('0' + len(e.Value)%10))})
			}
			h.Sample(map[string]any{"entries": ne, "root": vh.Hex(want[:]), "first": es})
		}
	}
	h.Note("max_trie_depth_seen", maxDepth)
	h.Count("max_depth_ge_200", int64(b2i(maxDepth >= 200)))
}

func b2i(b bool) int {
	if b {
		return 1
	}
	return 0
}
