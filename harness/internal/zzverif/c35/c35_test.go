// C35 — dispute records (DESIGN §2 C35).
//
// Histories of blocks with dispute extrinsics carrying real Ed25519 signatures are driven through extrinsic.Disputes()
// on the blockchain singleton (as stf.UpdateDisputes does). After every block the monitor checks
//
//	invariants   ψ_g, ψ_b, ψ_w pairwise disjoint and each sorted; ψ_o sorted and a superset of the prior ψ_o
//	             (a rejected block must leave nothing behind: the history continues from the last accepted state)
//	classify     an accepted verdict with p positive votes lands in ψ_g iff p = ⌊2V/3⌋+1, in ψ_b iff p = 0, in ψ_w iff
//	             p = ⌊V/3⌋; a block holding a verdict with any other p, or a target judged before, is rejected;
//	             ψ'_x = ψ_x ∪ {new x-verdicts} exactly
//	clear        every pending report (ρ) judged bad or wonky is gone from ρ†, every other one is still there
//	liveness     a fully well-formed extrinsic is accepted
//
// Other admission rules (orderings, ages, signatures, culprit / fault validity) are exercised by one-fault mutants of
// well-formed extrinsics; their outcome is recorded, not judged (U11).
package c35

import (
	"bytes"
	"crypto/ed25519"
	"crypto/sha256"
	"fmt"
	"sort"
	"testing"

	"github.com/New-JAMneration/JAM-Protocol/internal/blockchain"
	"github.com/New-JAMneration/JAM-Protocol/internal/extrinsic"
	"github.com/New-JAMneration/JAM-Protocol/internal/types"
	"github.com/New-JAMneration/JAM-Protocol/internal/utilities/hash"
	"github.com/New-JAMneration/JAM-Protocol/internal/zzverif/vgen"
	"github.com/New-JAMneration/JAM-Protocol/internal/zzverif/vh"
)

type val struct {
	pub  types.Ed25519Public
	priv ed25519.PrivateKey
}

func mkVal(tag string, i int) val {
	seed := sha256.Sum256([]byte(fmt.Sprintf("c35-%s-%d", tag, i)))
	priv := ed25519.NewKeyFromSeed(seed[:])
	var v val
	v.priv = priv
	copy(v.pub[:], priv.Public().(ed25519.PublicKey))
	return v
}

func sign(v val, ctx string, target types.WorkReportHash) (s types.Ed25519Signature) {
	copy(s[:], ed25519.Sign(v.priv, append([]byte(ctx), target[:]...)))
	return
}

func vdata(vs []val) types.ValidatorsData {
	out := make(types.ValidatorsData, len(vs))
	for i, v := range vs {
		out[i].Ed25519 = v.pub
		out[i].Bandersnatch[0] = byte(i)
	}
	return out
}

type world struct {
	V            int
	kappa, lamda []val
	byPub        map[types.Ed25519Public]val
	tau          types.TimeSlot
	psi          types.DisputesRecords
	rho          types.AvailabilityAssignments
	gen          int
}

func sortedHashes(x []types.WorkReportHash) bool {
	for i := 1; i < len(x); i++ {
		if bytes.Compare(x[i-1][:], x[i][:]) >= 0 {
			return false
		}
	}
	return true
}

func reportHash(r *types.WorkReport) types.WorkReportHash {
	e := types.NewEncoder()
	b, err := e.Encode(r)
	if err != nil {
		panic(err)
	}
	return types.WorkReportHash(hash.Blake2bHash(b))
}

func cloneRho(r types.AvailabilityAssignments) types.AvailabilityAssignments {
	out := make(types.AvailabilityAssignments, len(r))
	for i, a := range r {
		if a != nil {
			c := *a
			out[i] = &c
		}
	}
	return out
}

func clonePsi(p types.DisputesRecords) types.DisputesRecords {
	return types.DisputesRecords{Good: append([]types.WorkReportHash{}, p.Good...), Bad: append([]types.WorkReportHash{}, p.Bad...),
		Wonky: append([]types.WorkReportHash{}, p.Wonky...), Offenders: append([]types.Ed25519Public{}, p.Offenders...)}
}

type vplan struct {
	target   types.WorkReportHash
	positive int
	age      types.U32
	class    string // good bad wonky other
}

func TestVerifC35(t *testing.T) {
	h := vh.Open(t, "C35")
	defer h.Done()
	n := h.N(1500, 30000)
	for ci := 0; ci < n; ci++ {
		if !h.Mine("hist", ci) {
			continue
		}
		h.CaseLight("hist", ci)
		full := h.Thorough() && ci%200 == 199
		if full {
			types.SetFullMode()
		} else {
			types.SetTinyMode()
		}
		history(h, ci, h.Rng("hist", ci), full)
	}
	types.SetTinyMode()
}

func history(h *vh.H, ci int, r vh.R, full bool) {
	V := types.ValidatorsCount
	E := types.EpochLength
	w := &world{V: V, byPub: map[types.Ed25519Public]val{}}
	for i := 0; i < V; i++ {
		w.kappa = append(w.kappa, mkVal(fmt.Sprintf("k0-%d", ci%7), i))
		w.lamda = append(w.lamda, mkVal(fmt.Sprintf("l0-%d", ci%7), i))
	}
	if r.IntN(3) == 0 { // the previous epoch had (partly) the same validators
		for i := 0; i < V; i += 2 {
			w.lamda[i] = w.kappa[i]
		}
	}
	reindex := func() {
		for _, v := range append(append([]val{}, w.kappa...), w.lamda...) {
			w.byPub[v.pub] = v
		}
	}
	reindex()
	// every fourth history lives high up in the 32-bit slot range (an epoch-aligned offset near 2^16, 2^31 or just below 2^32): slot
	// arithmetic narrowed to 16 or 31 bits, or signed, goes wrong only there
	hiBase := 0
	if r.IntN(4) == 0 {
		hiBase = []int{(1 << 16) / E, (1<<16)/E - 1, (1 << 31) / E, (1<<31)/E - 1, (1<<32)/E - 60}[r.IntN(5)] * E
		h.Inc("histories_high_in_the_slot_range")
	}
	w.tau = types.TimeSlot(hiBase + E*(1+r.IntN(3)) + r.IntN(E))
	good, wonky := 2*V/3+1, V/3
	blocks := 2 + r.IntN(7)
	if full {
		blocks = 2
	}
	var trace []string
	for b := 0; b < blocks; b++ {
		// time moves; at an epoch change the current validators become the previous ones
		if b > 0 {
			adv := 1 + r.IntN(3)
			if r.IntN(4) == 0 {
				adv = E
			}
			e0 := int(w.tau) / E
			w.tau += types.TimeSlot(adv)
			if int(w.tau)/E != e0 {
				w.gen++
				w.lamda = w.kappa
				w.kappa = nil
				for i := 0; i < V; i++ {
					w.kappa = append(w.kappa, mkVal(fmt.Sprintf("k%d-%d", w.gen, ci%7), i))
				}
				reindex()
			}
		}
		// pending reports: refill empty cores now and then
		if w.rho == nil {
			w.rho = make(types.AvailabilityAssignments, types.CoresCount)
		}
		for c := range w.rho {
			if w.rho[c] == nil && r.IntN(2) == 0 && !full {
				var rep types.WorkReport
				for try := 0; try < 20; try++ {
					vgen.Fill(r, &rep)
					rep.CoreIndex = types.CoreIndex(c)
					if _, err := types.NewEncoder().Encode(&rep); err == nil {
						break
					}
				}
				w.rho[c] = &types.AvailabilityAssignment{Report: rep, AssignedSlot: w.tau}
			}
		}
		judged := map[types.WorkReportHash]bool{}
		for _, x := range w.psi.Good {
			judged[x] = true
		}
		for _, x := range w.psi.Bad {
			judged[x] = true
		}
		for _, x := range w.psi.Wonky {
			judged[x] = true
		}
		offender := map[types.Ed25519Public]bool{}
		for _, k := range w.psi.Offenders {
			offender[k] = true
		}
		epoch := types.U32(int(w.tau) / E)

		// ---- plan a well-formed extrinsic -----------------------------------------------------------------------
		nv := r.IntN(4)
		if full {
			nv = 1
		}
		var plans []vplan
		used := map[types.WorkReportHash]bool{}
		for len(plans) < nv {
			var tg types.WorkReportHash
			switch {
			case r.IntN(3) == 0 && !full:
				var cands []types.WorkReportHash
				for _, a := range w.rho {
					if a != nil {
						cands = append(cands, reportHash(&a.Report))
					}
				}
				if len(cands) == 0 {
					continue
				}
				tg = cands[r.IntN(len(cands))]
			default:
				copy(tg[:], r.Bytes(32))
				if r.Bool() { // small hashes: new entries sort before / between the recorded ones
					tg = types.WorkReportHash{}
					tg[0] = byte(r.IntN(8))
					tg[31] = byte(r.IntN(256))
				}
			}
			if used[tg] || judged[tg] {
				continue
			}
			used[tg] = true
			p := []int{good, 0, wonky}[r.IntN(3)]
			age := epoch
			if r.IntN(3) == 0 {
				age = epoch - 1
			}
			plans = append(plans, vplan{target: tg, positive: p, age: age, class: map[int]string{good: "good", 0: "bad", wonky: "wonky"}[p]})
		}
		sort.Slice(plans, func(i, j int) bool { return bytes.Compare(plans[i].target[:], plans[j].target[:]) < 0 })

		mutation := "none"
		if r.IntN(3) == 0 && len(plans) > 0 {
			mutation = []string{"vote-split", "vote-split", "vote-split", "already-judged", "already-judged", "verdicts-unsorted", "bad-signature", "bad-age", "missing-culprit", "missing-fault",
				"culprit-not-bad", "offender-again", "culprits-unsorted", "votes-unsorted"}[r.IntN(14)]
		}
		if mutation == "vote-split" {
			k := r.IntN(len(plans))
			var others []int
			for p := 0; p <= types.ValidatorsSuperMajority; p++ {
				if p != good && p != 0 && p != wonky {
					others = append(others, p)
				}
			}
			// neighbours of the three legal counts are the interesting ones
			near := []int{1, wonky - 1, wonky + 1, good - 1}
			p := near[r.IntN(len(near))]
			if p < 0 || p > types.ValidatorsSuperMajority || p == good || p == 0 || p == wonky {
				p = others[r.IntN(len(others))]
			}
			plans[k].positive, plans[k].class = p, "other"
		}
		if mutation == "already-judged" {
			var prev []types.WorkReportHash
			prev = append(append(append(prev, w.psi.Good...), w.psi.Bad...), w.psi.Wonky...)
			if len(prev) == 0 {
				mutation = "none"
			} else {
				k := r.IntN(len(plans))
				plans[k].target = prev[r.IntN(len(prev))]
				sort.Slice(plans, func(i, j int) bool { return bytes.Compare(plans[i].target[:], plans[j].target[:]) < 0 })
				dup := false
				for i := 1; i < len(plans); i++ {
					if plans[i].target == plans[i-1].target {
						dup = true
					}
				}
				if dup {
					mutation = "none+dup" // would be rejected for another reason; not judged as already-judged
				}
			}
		}

		// ---- build the extrinsic ---------------------------------------------------------------------------------
		var de types.DisputesExtrinsic
		keysOf := func(age types.U32) []val {
			if age == epoch {
				return w.kappa
			}
			return w.lamda
		}
		usedKeys := map[types.Ed25519Public]bool{}
		for _, k := range w.psi.Offenders {
			usedKeys[k] = true
		}
		pickKey := func(avoid map[types.Ed25519Public]bool) (val, bool) {
			all := append(append([]val{}, w.kappa...), w.lamda...)
			for try := 0; try < 40; try++ {
				v := all[r.IntN(len(all))]
				if !usedKeys[v.pub] && !avoid[v.pub] {
					return v, true
				}
			}
			return val{}, false
		}
		wellFormed := true
		culpritKeys := map[types.Ed25519Public]bool{}
		faultKeys := map[types.Ed25519Public]bool{}
		for _, p := range plans {
			ks := keysOf(p.age)
			idx := r.Perm(V)[:types.ValidatorsSuperMajority]
			sort.Ints(idx)
			vd := types.Verdict{Target: p.target, Age: p.age}
			pos := map[int]bool{}
			for _, i := range r.Perm(len(idx))[:p.positive] {
				pos[i] = true
			}
			for k, i := range idx {
				ctx := types.JamInvalid
				if pos[k] {
					ctx = types.JamValid
				}
				vd.Votes = append(vd.Votes, types.Judgement{Vote: pos[k], Index: types.ValidatorIndex(i), Signature: sign(ks[i], ctx, p.target)})
			}
			de.Verdicts = append(de.Verdicts, vd)
			switch p.class {
			case "bad":
				nc := 2 + r.IntN(2)
				if mutation == "missing-culprit" {
					nc = r.IntN(2)
				}
				for k := 0; k < nc; k++ {
					v, ok := pickKey(culpritKeys)
					if !ok {
						wellFormed = false
						break
					}
					culpritKeys[v.pub] = true
					de.Culprits = append(de.Culprits, types.Culprit{Target: p.target, Key: v.pub, Signature: sign(v, types.JamGuarantee, p.target)})
				}
				if r.Bool() { // a fault on a bad verdict: somebody voted "valid"
					if v, ok := pickKey(faultKeys); ok {
						faultKeys[v.pub] = true
						de.Faults = append(de.Faults, types.Fault{Target: p.target, Vote: true, Key: v.pub, Signature: sign(v, types.JamValid, p.target)})
					}
				}
			case "good":
				nf := 1 + r.IntN(2)
				if mutation == "missing-fault" {
					nf = 0
				}
				for k := 0; k < nf; k++ {
					v, ok := pickKey(faultKeys)
					if !ok {
						wellFormed = false
						break
					}
					faultKeys[v.pub] = true
					de.Faults = append(de.Faults, types.Fault{Target: p.target, Vote: false, Key: v.pub, Signature: sign(v, types.JamInvalid, p.target)})
				}
			}
		}
		sort.Slice(de.Culprits, func(i, j int) bool { return bytes.Compare(de.Culprits[i].Key[:], de.Culprits[j].Key[:]) < 0 })
		sort.Slice(de.Faults, func(i, j int) bool { return bytes.Compare(de.Faults[i].Key[:], de.Faults[j].Key[:]) < 0 })
		applied := mutation
		switch mutation {
		case "verdicts-unsorted":
			if len(de.Verdicts) >= 2 {
				de.Verdicts[0], de.Verdicts[1] = de.Verdicts[1], de.Verdicts[0]
			} else {
				applied = "none"
			}
		case "bad-signature":
			de.Verdicts[0].Votes[r.IntN(len(de.Verdicts[0].Votes))].Signature[r.IntN(64)] ^= 1
		case "bad-age":
			de.Verdicts[0].Age = epoch + 1 + types.U32(r.IntN(2))
		case "culprit-not-bad":
			if v, ok := pickKey(culpritKeys); ok {
				var tg types.WorkReportHash
				for _, p := range plans {
					if p.class != "bad" {
						tg = p.target
					}
				}
				de.Culprits = append(de.Culprits, types.Culprit{Target: tg, Key: v.pub, Signature: sign(v, types.JamGuarantee, tg)})
				sort.Slice(de.Culprits, func(i, j int) bool { return bytes.Compare(de.Culprits[i].Key[:], de.Culprits[j].Key[:]) < 0 })
			} else {
				applied = "none"
			}
		case "offender-again":
			if len(w.psi.Offenders) > 0 && len(de.Culprits) > 0 {
				k := w.psi.Offenders[r.IntN(len(w.psi.Offenders))]
				if v, ok := w.byPub[k]; ok {
					de.Culprits[0].Key, de.Culprits[0].Signature = v.pub, sign(v, types.JamGuarantee, de.Culprits[0].Target)
					sort.Slice(de.Culprits, func(i, j int) bool { return bytes.Compare(de.Culprits[i].Key[:], de.Culprits[j].Key[:]) < 0 })
				} else {
					applied = "none"
				}
			} else {
				applied = "none"
			}
		case "culprits-unsorted":
			if len(de.Culprits) >= 2 {
				de.Culprits[0], de.Culprits[1] = de.Culprits[1], de.Culprits[0]
			} else {
				applied = "none"
			}
		case "votes-unsorted":
			vs := de.Verdicts[0].Votes
			vs[0], vs[1] = vs[1], vs[0]
		case "missing-culprit":
			hasBad := false
			for _, p := range plans {
				hasBad = hasBad || p.class == "bad"
			}
			if !hasBad {
				applied = "none"
			}
		case "missing-fault":
			hasGood := false
			for _, p := range plans {
				hasGood = hasGood || p.class == "good"
			}
			if !hasGood {
				applied = "none"
			}
		}
		if !wellFormed {
			applied = "not-judged(out of fresh keys)"
		}

		// ---- run -----------------------------------------------------------------------------------------------------
		priorPsi := clonePsi(w.psi)
		priorRho := cloneRho(w.rho)
		var err error
		var post types.DisputesRecords
		var rhoD types.AvailabilityAssignments
		pn, msg, st := vh.Guard(func() {
			blockchain.ResetInstance()
			cs := blockchain.GetInstance()
			cs.GetPriorStates().SetPsi(clonePsi(w.psi))
			cs.GetPriorStates().SetRho(cloneRho(w.rho))
			cs.GetPriorStates().SetTau(w.tau)
			cs.GetPriorStates().SetKappa(vdata(w.kappa))
			cs.GetPriorStates().SetLambda(vdata(w.lamda))
			cs.AddBlock(types.Block{Header: types.Header{Slot: w.tau + 1}, Extrinsic: types.Extrinsic{Disputes: de}})
			cs.GetPosteriorStates().SetTau(w.tau + 1)
			_, err = extrinsic.Disputes()
			post = cs.GetPosteriorStates().GetPsi()
			rhoD = cs.GetIntermediateStates().GetRhoDagger()
		})
		var classes []string
		for _, p := range plans {
			classes = append(classes, fmt.Sprintf("%s(%d+)", p.class, p.positive))
		}
		trace = append(trace, fmt.Sprintf("%v/%s", classes, applied))
		d := map[string]any{"block": b, "validators": V, "verdicts": fmt.Sprint(classes), "mutation": applied, "culprits": len(de.Culprits), "faults": len(de.Faults),
			"history": fmt.Sprint(trace), "error": fmt.Sprint(err), "prior_sizes": fmt.Sprintf("g%d b%d w%d o%d", len(priorPsi.Good), len(priorPsi.Bad), len(priorPsi.Wonky), len(priorPsi.Offenders))}
		if pn {
			d["panic"], d["stack"] = msg, st
			h.Viol("hist", ci, "", "dispute processing panicked", d)
			return
		}
		h.Inc("blocks")
		h.Inc("mutation_" + applied)
		accepted := err == nil
		switch {
		case applied == "none" && !accepted:
			h.Viol("hist", ci, "", "a well-formed dispute extrinsic is rejected", d)
			return
		case applied == "vote-split" && accepted:
			h.Viol("hist", ci, "", "classification: a verdict whose positive-vote count is none of {0, V/3, 2V/3+1} is accepted", d)
			return
		case applied == "already-judged" && accepted:
			h.Viol("hist", ci, "", "a verdict on a report that is already in the good/bad/wonky records is accepted", d)
			return
		}
		if applied != "none" && applied != "vote-split" && applied != "already-judged" {
			if accepted {
				h.Inc("not_judged_accepted_with_" + applied)
			} else {
				h.Inc("not_judged_rejected_with_" + applied)
			}
		}
		if !accepted {
			h.Inc("blocks_rejected")
			continue // the history goes on from the last accepted state
		}
		h.Inc("blocks_accepted")
		// ---- invariants ----------------------------------------------------------------------------------------------
		sets := map[string][]types.WorkReportHash{"good": post.Good, "bad": post.Bad, "wonky": post.Wonky}
		seen := map[types.WorkReportHash]string{}
		for _, name := range []string{"good", "bad", "wonky"} {
			if !sortedHashes(sets[name]) {
				d["set"] = name
				h.Viol("hist", ci, "", "invariant: a report set is not sorted (or holds a duplicate) after an accepted block", d)
				return
			}
			for _, x := range sets[name] {
				if o, dup := seen[x]; dup {
					d["sets"] = o + "+" + name
					h.Viol("hist", ci, "", "invariant: report sets are not pairwise disjoint", d)
					return
				}
				seen[x] = name
			}
		}
		for i := 1; i < len(post.Offenders); i++ {
			if bytes.Compare(post.Offenders[i-1][:], post.Offenders[i][:]) >= 0 {
				h.Viol("hist", ci, "", "invariant: offenders not sorted (or duplicated)", d)
				return
			}
		}
		po := map[types.Ed25519Public]bool{}
		for _, k := range post.Offenders {
			po[k] = true
		}
		for _, k := range priorPsi.Offenders {
			if !po[k] {
				h.Viol("hist", ci, "", "invariant: the offender set shrank", d)
				return
			}
		}
		// ---- classification --------------------------------------------------------------------------------------------
		wantSet := map[string]map[types.WorkReportHash]bool{"good": {}, "bad": {}, "wonky": {}}
		for _, x := range priorPsi.Good {
			wantSet["good"][x] = true
		}
		for _, x := range priorPsi.Bad {
			wantSet["bad"][x] = true
		}
		for _, x := range priorPsi.Wonky {
			wantSet["wonky"][x] = true
		}
		otherCount := false
		for _, p := range plans {
			if p.class == "other" {
				otherCount = true
				continue
			}
			wantSet[p.class][p.target] = true
		}
		if otherCount {
			h.Viol("hist", ci, "", "classification: a verdict whose positive-vote count is none of {0, V/3, 2V/3+1} is accepted", d)
			return
		}
		for name, ws := range wantSet {
			if len(ws) != len(sets[name]) {
				d["set"] = name
				h.Viol("hist", ci, "", "classification: a report set is not the prior set plus this block's verdicts of that class", d)
				return
			}
			for _, x := range sets[name] {
				if !ws[x] {
					d["set"] = name
					h.Viol("hist", ci, "", "classification: a report set is not the prior set plus this block's verdicts of that class", d)
					return
				}
			}
		}
		// offenders = prior ∪ culprit keys ∪ fault keys
		wantO := map[types.Ed25519Public]bool{}
		for _, k := range priorPsi.Offenders {
			wantO[k] = true
		}
		for _, c := range de.Culprits {
			wantO[c.Key] = true
		}
		for _, f := range de.Faults {
			wantO[f.Key] = true
		}
		if len(wantO) != len(post.Offenders) {
			d["offenders"], d["model"] = len(post.Offenders), len(wantO)
			h.Viol("hist", ci, "", "offenders are not the prior offenders plus this block's culprits and faults", d)
			return
		}
		// ---- pending reports -------------------------------------------------------------------------------------------
		verdictOf := map[types.WorkReportHash]string{}
		for _, p := range plans {
			verdictOf[p.target] = p.class
		}
		for c := range priorRho {
			if priorRho[c] == nil {
				continue
			}
			cls := verdictOf[reportHash(&priorRho[c].Report)]
			still := c < len(rhoD) && rhoD[c] != nil
			switch {
			case (cls == "bad" || cls == "wonky") && still:
				d["core"], d["class"] = c, cls
				h.Viol("hist", ci, "", "clear: a report judged bad or wonky is still pending availability", d)
				return
			case cls != "bad" && cls != "wonky" && !still:
				d["core"], d["class"] = c, cls
				h.Viol("hist", ci, "", "clear: a pending report that was not judged bad or wonky disappeared", d)
				return
			}
			if cls == "bad" || cls == "wonky" {
				h.Inc("pending_reports_cleared")
			} else if cls == "good" {
				h.Inc("pending_reports_judged_good_kept")
			}
		}
		for _, p := range plans {
			h.Inc("verdicts_" + p.class)
		}
		if len(plans) > 0 && (len(priorPsi.Good)+len(priorPsi.Bad)+len(priorPsi.Wonky)) > 0 {
			h.Inc("blocks_adding_to_nonempty_records")
		}
		w.psi = clonePsi(post)
		w.rho = cloneRho(rhoD)
		if len(w.rho) != types.CoresCount {
			w.rho = make(types.AvailabilityAssignments, types.CoresCount)
		}
	}
	if full {
		h.Inc("histories_full_params")
	}
	h.Distinct(fmt.Sprint(trace))
	if ci < 2 {
		h.Sample(map[string]any{"history": fmt.Sprint(trace), "validators": V})
	}
}
