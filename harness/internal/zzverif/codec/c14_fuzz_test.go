package codec

import (
	"bytes"
	"os"
	"runtime"
	"testing"

	"github.com/New-JAMneration/JAM-Protocol/internal/fuzz"
	"github.com/New-JAMneration/JAM-Protocol/internal/types"
	"github.com/New-JAMneration/JAM-Protocol/internal/zzverif/vgen"
	"github.com/New-JAMneration/JAM-Protocol/internal/zzverif/vh"
)

// FuzzVerifC14: Go's coverage-guided fuzzer over every top-level decoder and the fuzz-protocol frame reader. The target fails
// on a Go panic or when one decode allocates more than 1 MiB + 4096 bytes per input byte (the same bound as the generated
// corpus). The runner executes it in a scratch directory; failing inputs land there, never in /repo.
func FuzzVerifC14(f *testing.F) {
	if os.Getenv("VERIF_CHECK") != "C14" {
		f.Skip("verif harness: not selected")
	}
	types.SetTinyMode()
	r := vh.NewR(14, 1)
	for ti, rt := range roots {
		v := rt.mk()
		vgen.Fill(r, v)
		if enc, err := encode(v); err == nil && len(enc) < 4096 {
			f.Add(uint16(ti), enc)
		}
	}
	for i := 0; i < 8; i++ {
		if fr, err := genMessage(r).MarshalBinary(); err == nil && len(fr) < 4096 {
			f.Add(uint16(0xFFFF), fr)
		}
	}
	var ms runtime.MemStats
	f.Fuzz(func(t *testing.T, sel uint16, in []byte) {
		if len(in) > 1<<16 {
			return
		}
		in = exact(in) // the fuzzing engine's buffers have spare capacity: hand the decoders one without
		runtime.ReadMemStats(&ms)
		a0 := ms.TotalAlloc
		what := "frame reader"
		pn, msg, st := vh.Guard(func() {
			if sel == 0xFFFF {
				var m fuzz.Message
				m.ReadFrom(bytes.NewReader(in))
				return
			}
			rt := roots[int(sel)%len(roots)]
			what = rt.name
			decode(in, rt.mk())
		})
		runtime.ReadMemStats(&ms)
		if pn {
			t.Fatalf("go runtime panic decoding untrusted bytes [%s]: %s [%s]", what, msg, st)
		}
		if alloc, bound := ms.TotalAlloc-a0, uint64(1<<20)+4096*uint64(len(in)); alloc > bound {
			t.Fatalf("decoding %d untrusted bytes [%s] allocated %d bytes (bound %d)", len(in), what, alloc, bound)
		}
	})
}
