// Package codec holds /verif's monitors of the JAM codec: round trip and determinism (C11),
// strictness (C13) and safety on untrusted bytes (C14). Values come from vgen (reflection over the
// repository's own types); byte strings are mutations of their encodings.
package codec

import (
	"bytes"
	"sync"
	"sync/atomic"
	"encoding/binary"
	"fmt"
	"reflect"
	"runtime"
	"strings"
	"testing"

	"github.com/New-JAMneration/JAM-Protocol/internal/fuzz"
	"github.com/New-JAMneration/JAM-Protocol/internal/types"
	"github.com/New-JAMneration/JAM-Protocol/internal/zzverif/vgen"
	"github.com/New-JAMneration/JAM-Protocol/internal/zzverif/vh"
)

func encode(v any) ([]byte, error) {
	e := types.NewEncoder()
	e.SetHashSegmentMap(types.HashSegmentMap{})
	return e.Encode(v)
}

// exact returns a copy whose capacity equals its length: a decoder that reslices past the end of its input then faults
// instead of quietly reading the spare capacity of the caller's buffer (prefixes and appended copies have plenty).
func exact(b []byte) []byte {
	out := make([]byte, len(b))
	copy(out, b)
	return out
}

func decode(data []byte, v any) (int, error) {
	data = exact(data)
	d := types.NewDecoder()
	d.SetHashSegmentMap(types.HashSegmentMap{})
	return d.DecodeWithConsumed(data, v)
}

// eqv: deep equality where nil and empty slices / maps are the same value.
func eqv(a, b reflect.Value) bool {
	if a.Type() != b.Type() {
		return false
	}
	switch a.Kind() {
	case reflect.Slice:
		if a.Len() != b.Len() {
			return false
		}
		for i := 0; i < a.Len(); i++ {
			if !eqv(a.Index(i), b.Index(i)) {
				return false
			}
		}
		return true
	case reflect.Array:
		for i := 0; i < a.Len(); i++ {
			if !eqv(a.Index(i), b.Index(i)) {
				return false
			}
		}
		return true
	case reflect.Map:
		if a.Len() != b.Len() {
			return false
		}
		it := a.MapRange()
		for it.Next() {
			bv := b.MapIndex(it.Key())
			if !bv.IsValid() || !eqv(it.Value(), bv) {
				return false
			}
		}
		return true
	case reflect.Ptr:
		if a.IsNil() || b.IsNil() {
			return a.IsNil() == b.IsNil()
		}
		return eqv(a.Elem(), b.Elem())
	case reflect.Struct:
		for i := 0; i < a.NumField(); i++ {
			if !eqv(a.Field(i), b.Field(i)) {
				return false
			}
		}
		return true
	case reflect.Interface:
		if a.IsNil() || b.IsNil() {
			return a.IsNil() == b.IsNil()
		}
		return eqv(a.Elem(), b.Elem())
	default:
		return reflect.DeepEqual(a.Interface(), b.Interface())
	}
}

func hasMap(t reflect.Type, depth int) bool {
	if depth > 8 {
		return false
	}
	switch t.Kind() {
	case reflect.Map:
		return true
	case reflect.Slice, reflect.Array, reflect.Ptr:
		return hasMap(t.Elem(), depth+1)
	case reflect.Struct:
		for i := 0; i < t.NumField(); i++ {
			if hasMap(t.Field(i).Type, depth+1) {
				return true
			}
		}
	}
	return false
}

// diffPath returns the path of the first difference between two values (for the report only).
func diffPath(a, b reflect.Value, path string) string {
	if eqv(a, b) {
		return ""
	}
	switch a.Kind() {
	case reflect.Struct:
		for i := 0; i < a.NumField(); i++ {
			if p := diffPath(a.Field(i), b.Field(i), path+"."+a.Type().Field(i).Name); p != "" {
				return p
			}
		}
	case reflect.Slice, reflect.Array:
		if a.Len() != b.Len() {
			return fmt.Sprintf("%s (len %d vs %d)", path, a.Len(), b.Len())
		}
		for i := 0; i < a.Len(); i++ {
			if p := diffPath(a.Index(i), b.Index(i), fmt.Sprintf("%s[%d]", path, i)); p != "" {
				return p
			}
		}
	case reflect.Ptr:
		if !a.IsNil() && !b.IsNil() {
			return diffPath(a.Elem(), b.Elem(), path)
		}
	case reflect.Map:
		if a.Len() != b.Len() {
			return fmt.Sprintf("%s (map len %d vs %d)", path, a.Len(), b.Len())
		}
		it := a.MapRange()
		for it.Next() {
			bv := b.MapIndex(it.Key())
			if !bv.IsValid() {
				return fmt.Sprintf("%s[%v] missing", path, it.Key().Interface())
			}
			if p := diffPath(it.Value(), bv, fmt.Sprintf("%s[%v]", path, it.Key().Interface())); p != "" {
				return p
			}
		}
	}
	return fmt.Sprintf("%s: %.80v vs %.80v", path, a.Interface(), b.Interface())
}

// ---- C11: round trip and determinism ----------------------------------------------------------------------------------

func TestVerifC11(t *testing.T) {
	h := vh.Open(t, "C11")
	defer h.Done()
	types.SetTinyMode()
	per := h.N(250, 5000)
	for ti, rt := range roots {
		withMap := hasMap(reflect.TypeOf(rt.mk()).Elem(), 0)
		accepted := 0
		for k := 0; k < per; k++ {
			ci := ti*100000 + k
			if !h.Mine("value", ci) {
				continue
			}
			h.CaseLight("value", ci)
			r := h.Rng("value", ci)
			v := rt.mk()
			vgen.Fill(r, v)
			var enc []byte
			var err error
			if pn, msg, st := vh.Guard(func() { enc, err = encode(v) }); pn {
				h.Viol("value", ci, "", "round trip: encoder panicked", map[string]any{"type": rt.name, "panic": msg, "stack": st})
				continue
			}
			if err != nil { // the encoder's own validation rejects the value: a constraint the generator does not know
				h.Inc("generated_values_rejected_by_the_encoder")
				h.Inc("rejected_" + rt.name)
				continue
			}
			accepted++
			d := map[string]any{"type": rt.name, "encoding_len": len(enc), "encoding_head": vh.Hex(enc[:min(len(enc), 48)])}
			// determinism: fresh encoder, pooled encoder (after it encoded something else), several times for maps
			reps := 2
			if withMap {
				reps = 4
			}
			for i := 0; i < reps; i++ {
				pe := types.GetEncoder()
				pe.SetHashSegmentMap(types.HashSegmentMap{})
				if i%2 == 1 {
					junk := types.ByteSequence(r.Bytes(1 + r.IntN(64)))
					pe.Encode(&junk)
				}
				if i >= 1 {
					// the encoder's previous job may also have FAILED half-way (a value its own validation rejects after the first fields
					// were written): what it left behind must not show up in the next encoding
					poison := &types.WorkResult{ServiceID: types.ServiceID(r.U32()), Result: types.WorkExecResult{Type: types.WorkExecResultType(200)}}
					if _, perr := pe.Encode(poison); perr != nil {
						h.Inc("encodings_after_a_failed_encode_on_the_same_encoder")
					}
				}
				enc2, err2 := pe.Encode(v)
				types.PutEncoder(pe)
				if err2 != nil || !bytes.Equal(enc, enc2) {
					d["second_encoding_head"] = vh.Hex(enc2[:min(len(enc2), 48)])
					h.Viol("value", ci, "", "determinism: two encodings of the same value differ", d)
					break
				}
			}
			w := rt.mk()
			var n int
			if pn, msg, st := vh.Guard(func() { n, err = decode(enc, w) }); pn {
				d["panic"], d["stack"] = msg, st
				h.Viol("value", ci, "", "round trip: decoder panicked on a valid encoding", d)
				continue
			}
			if err != nil {
				d["err"] = err.Error()
				h.Viol("value", ci, "", "round trip: decoder rejects the encoder's output", d)
				continue
			}
			if n != len(enc) {
				d["consumed"] = n
				h.Viol("value", ci, "", "round trip: decoder does not consume exactly the encoding", d)
				continue
			}
			if !eqv(reflect.ValueOf(v).Elem(), reflect.ValueOf(w).Elem()) {
				d["original"], d["decoded"] = fmt.Sprintf("%+v", reflect.ValueOf(v).Elem().Interface())[:min(400, len(fmt.Sprintf("%+v", reflect.ValueOf(v).Elem().Interface())))], fmt.Sprintf("%+v", reflect.ValueOf(w).Elem().Interface())[:min(400, len(fmt.Sprintf("%+v", reflect.ValueOf(w).Elem().Interface())))]
				fd := diffPath(reflect.ValueOf(v).Elem(), reflect.ValueOf(w).Elem(), rt.name)
				d["first_difference"] = fd
				delete(d, "original")
				delete(d, "decoded")
				finding := ""
				if st, ok := v.(*types.State); ok && strings.HasPrefix(fd, "State.Theta") {
					// known finding C11-F1: the aggregate State codec does not carry Theta. Only this field is excused:
					// with Theta copied over, the rest of the value must be equal.
					w.(*types.State).Theta = st.Theta
					if eqv(reflect.ValueOf(v).Elem(), reflect.ValueOf(w).Elem()) {
						finding = "C11-F1"
					} else {
						d["first_difference"] = diffPath(reflect.ValueOf(v).Elem(), reflect.ValueOf(w).Elem(), rt.name)
					}
				}
				h.Viol("value", ci, finding, "round trip: decoded value differs from the original", d)
				if finding != "" {
					h.Inc("round_trips")
				}
				continue
			}
			h.Inc("round_trips")
			if withMap {
				h.Inc("round_trips_of_values_with_dictionaries")
			}
			if len(enc) > 1 {
				h.Distinct(rt.name, enc)
			}
			if k == 0 && (rt.name == "WorkReport" || rt.name == "Header") {
				h.Sample(map[string]any{"type": rt.name, "encoding_len": len(enc), "encoding_head": vh.Hex(enc[:min(len(enc), 64)])})
			}
		}
		if accepted > 0 && h.Shard == 0 { // every shard sees every type; count once
			h.Inc("types_with_round_trips")
		}
	}

	// ---- fuzz-protocol messages ---------------------------------------------------------------------------------
	m := h.N(1500, 30000)
	for ci := 0; ci < m; ci++ {
		if !h.Mine("message", ci) {
			continue
		}
		h.CaseLight("message", ci)
		r := h.Rng("message", ci)
		msg := genMessage(r)
		frame, err := msg.MarshalBinary()
		if err != nil {
			h.Inc("generated_values_rejected_by_the_encoder")
			continue
		}
		d := map[string]any{"message_type": int(msg.Type), "frame_len": len(frame), "frame_head": vh.Hex(frame[:min(len(frame), 48)])}
		var back fuzz.Message
		var n int64
		if pn, pm, st := vh.Guard(func() { n, err = back.ReadFrom(bytes.NewReader(frame)) }); pn {
			d["panic"], d["stack"] = pm, st
			h.Viol("message", ci, "", "round trip: message reader panicked on a valid frame", d)
			continue
		}
		if err != nil || n != int64(len(frame)) {
			d["err"], d["read"] = fmt.Sprint(err), n
			h.Viol("message", ci, "", "round trip: message reader rejects or does not consume a valid frame", d)
			continue
		}
		frame2, err := back.MarshalBinary()
		if err != nil || !bytes.Equal(frame, frame2) {
			d["reencoded_head"] = vh.Hex(frame2[:min(len(frame2), 48)])
			h.Viol("message", ci, "", "round trip: re-encoded message differs from the original frame", d)
			continue
		}
		h.Inc("message_round_trips")
		h.Inc(fmt.Sprintf("message_type_%d", msg.Type))
		h.Distinct("message", frame)
	}
}

func genMessage(r vh.R) *fuzz.Message {
	m := &fuzz.Message{}
	switch r.IntN(7) {
	case 0:
		m.Type = fuzz.MessageType_PeerInfo
		m.PeerInfo = &fuzz.PeerInfo{FuzzVersion: uint8(r.IntN(256)), FuzzFeatures: fuzz.Features(r.Uint32()), AppName: string(r.Bytes(r.IntN(40)))}
		m.PeerInfo.JamVersion = fuzz.Version{Major: uint8(r.IntN(256)), Minor: uint8(r.IntN(256)), Patch: uint8(r.IntN(256))}
		m.PeerInfo.AppVersion = fuzz.Version{Major: uint8(r.IntN(256)), Minor: uint8(r.IntN(256)), Patch: uint8(r.IntN(256))}
	case 1:
		m.Type = fuzz.MessageType_SetState
		m.SetState = &fuzz.SetState{}
		vgen.Fill(r, &m.SetState.Header)
		vgen.Fill(r, &m.SetState.State)
		vgen.Fill(r, &m.SetState.Ancestry)
	case 2:
		m.Type = fuzz.MessageType_StateRoot
		var s fuzz.StateRoot
		vgen.Fill(r, (*types.StateRoot)(&s))
		m.StateRoot = &s
	case 3:
		m.Type = fuzz.MessageType_ImportBlock
		var b types.Block
		for {
			vgen.Fill(r, &b)
			if _, err := encode(&b); err == nil {
				break
			}
		}
		ib := fuzz.ImportBlock(b)
		m.ImportBlock = &ib
	case 4:
		m.Type = fuzz.MessageType_GetState
		var g fuzz.GetState
		vgen.Fill(r, (*types.HeaderHash)(&g))
		m.GetState = &g
	case 5:
		m.Type = fuzz.MessageType_State
		var s fuzz.State
		vgen.Fill(r, (*types.StateKeyVals)(&s))
		m.State = &s
	default:
		m.Type = fuzz.MessageType_ErrorMessage
		m.Error = &fuzz.ErrorMessage{Error: string(r.Bytes(r.IntN(60)))}
	}
	return m
}

// ---- mutations ---------------------------------------------------------------------------------------------------------

var hostileNaturals = [][]byte{
	{0xFF, 0xFF, 0xFF, 0xFF, 0xFF, 0xFF, 0xFF, 0xFF, 0xFF}, {0xFF, 0, 0, 0, 0, 0, 0, 0, 0x80}, {0xFF, 0, 0, 0, 0, 0, 0, 0, 0x01},
	{0xFE, 0xFF, 0xFF, 0xFF, 0xFF, 0xFF, 0xFF, 0xFF}, {0xF0, 0xFF, 0xFF, 0xFF, 0xFF}, {0xE0, 0, 0, 0x20}, {0xC0, 0, 0x40}, {0x80, 0x80}, {0xBF, 0xFF},
	{0x81, 0x00}, {0x80, 0x01}, {0xC0, 0x01, 0x00}, {0xFF, 1, 0, 0, 0, 0, 0, 0, 0},
}

// wrapNaturals: 9-byte encodings of 2^e and 2^e+1 (e = 56..63) and of ceil(2^64/k) for a few element sizes k.
var wrapNaturals = func() [][]byte {
	var vals []uint64
	for e := uint(56); e <= 63; e++ {
		vals = append(vals, 1<<e, 1<<e+1)
	}
	for _, k := range []uint64{3, 5, 6, 12, 33, 36, 44, 65, 96, 144, 336} {
		vals = append(vals, ^uint64(0)/k+1)
	}
	out := make([][]byte, len(vals))
	for i, v := range vals {
		b := make([]byte, 9)
		b[0] = 0xFF
		binary.LittleEndian.PutUint64(b[1:], v)
		out[i] = b
	}
	return out
}()

func mutate(r vh.R, b []byte) []byte {
	out := append([]byte(nil), b...)
	for n := 1 + r.IntN(2); n > 0; n-- {
		switch r.IntN(9) {
		case 0: // truncation
			if len(out) > 0 {
				out = out[:r.IntN(len(out))]
			}
		case 1: // bit flip
			if len(out) > 0 {
				out[r.IntN(len(out))] ^= 1 << uint(r.IntN(8))
			}
		case 2: // a discriminator-like byte
			if len(out) > 0 {
				out[r.IntN(len(out))] = []byte{0, 1, 2, 3, 0x7F, 0x80, 0xFE, 0xFF}[r.IntN(8)]
			}
		case 3, 4: // a hostile or non-minimal natural number over the bytes at a random position
			nat := hostileNaturals[r.IntN(len(hostileNaturals))]
			if r.IntN(3) == 0 {
				nat = wrapNaturals[r.IntN(len(wrapNaturals))]
			}
			p := 0
			if len(out) > 0 {
				p = r.IntN(len(out))
			}
			if r.Bool() { // replace
				out = append(append(append([]byte(nil), out[:p]...), nat...), out[min(len(out), p+1):]...)
			} else { // insert
				out = append(append(append([]byte(nil), out[:p]...), nat...), out[p:]...)
			}
		case 5: // garbage suffix
			out = append(out, r.Bytes(1+r.IntN(8))...)
		case 6: // delete one byte
			if len(out) > 0 {
				p := r.IntN(len(out))
				out = append(out[:p:p], out[p+1:]...)
			}
		case 7: // random bytes over a window
			if len(out) > 0 {
				p := r.IntN(len(out))
				w := r.Bytes(1 + r.IntN(6))
				copy(out[p:], w)
			}
		default: // early positions: length prefixes and flags live there
			if len(out) > 0 {
				out[r.IntN(min(len(out), 6))] = byte(r.Uint32())
			}
		}
	}
	return out
}

// driveUntrusted feeds mutated encodings of generated values to the decoders. strict: C13's oracle; safe: C14's monitors.
func driveUntrusted(h *vh.H, strict, safe bool) {
	types.SetTinyMode()
	per := h.N(40, 800)
	nmut := 6
	var ms runtime.MemStats
	withMap := make([]bool, len(roots))
	for ti, rt := range roots {
		withMap[ti] = hasMap(reflect.TypeOf(rt.mk()).Elem(), 0)
	}
	for ti, rt := range roots {
		for k := 0; k < per; k++ {
			ci := ti*100000 + k
			if !h.Mine("bytes", ci) {
				continue
			}
			r := h.Rng("bytes", ci)
			v := rt.mk()
			vgen.Fill(r, v)
			enc, err := encode(v)
			if err != nil {
				continue
			}
			inputs := [][]byte{enc}
			for i := 0; i < nmut; i++ {
				inputs = append(inputs, mutate(r, enc))
			}
			if k%10 == 0 && len(enc) <= 600 { // every proper prefix of some valid encodings
				for p := 0; p < len(enc); p++ {
					inputs = append(inputs, enc[:p])
				}
			}
			// repeated / swapped neighbours: a window of w bytes copied over (or swapped with) the w bytes that follow it, at
			// every early offset — two adjacent dictionary entries or set elements become equal or change places. Systematic
			// for short encodings of types that contain dictionaries or sequences of fixed-width items.
			if withMap[ti] && len(enc) <= 160 && k%2 == 0 {
				for _, wl := range []int{4, 8, 12, 32, 33, 36, 40, 44} {
					for off := 0; off <= 12 && off+2*wl <= len(enc); off++ {
						dup := append([]byte(nil), enc...)
						copy(dup[off+wl:off+2*wl], enc[off:off+wl])
						inputs = append(inputs, dup)
						// only the first 4 bytes (a 32-bit key) repeated
						if wl > 4 {
							kd := append([]byte(nil), enc...)
							copy(kd[off+wl:off+wl+4], enc[off:off+4])
							inputs = append(inputs, kd)
						}
						sw := append([]byte(nil), enc...)
						copy(sw[off:off+wl], enc[off+wl:off+2*wl])
						copy(sw[off+wl:off+2*wl], enc[off:off+wl])
						inputs = append(inputs, sw)
					}
				}
			}
			// every byte of a short encoding one up and one down: every length prefix, discriminator and flag of the value is hit
			// exactly, also the ones a random position rarely meets (the first of two redundant prefixes, the count of a one-entry
			// dictionary, …)
			if len(enc) <= 96 && (strict && k%2 == 1 || safe && k%8 == 1) {
				for p := range enc {
					for _, dlt := range []byte{1, 0xFF} {
						x := append([]byte(nil), enc...)
						x[p] += dlt
						inputs = append(inputs, x)
					}
				}
				h.Inc("encodings_perturbed_at_every_byte")
			}
			// a length prefix whose product with an element size wraps around 64 bits (2^56..2^63 and their successors, ceil(2^64/k) for
			// element sizes that are not powers of two) written over every position of a short encoding: whichever byte is a
			// sequence length gets each of them
			if len(enc) <= 64 && k%4 == 3 {
				for p := range enc {
					for _, nat := range wrapNaturals {
						x := append(append(append([]byte(nil), enc[:p]...), nat...), enc[p+1:]...)
						inputs = append(inputs, x)
					}
				}
				h.Inc("encodings_with_wrapping_length_prefixes_at_every_byte")
			}
			for ii, in := range inputs {
				if safe {
					h.Case("bytes", ci, "", map[string]any{"type": rt.name, "input": vh.Hex(in)})
				} else {
					h.CaseLight("bytes", ci)
				}
				w := rt.mk()
				var n int
				runtime.ReadMemStats(&ms)
				a0 := ms.TotalAlloc
				pn, msg, st := vh.Guard(func() { n, err = decode(in, w) })
				runtime.ReadMemStats(&ms)
				alloc := ms.TotalAlloc - a0
				d := map[string]any{"type": rt.name, "input_len": len(in), "input": vh.Hex(in[:min(len(in), 200)]), "mutation_index": ii}
				if pn {
					if safe {
						d["panic"], d["stack"] = msg, st
						h.Viol("bytes", ci, "", "untrusted bytes ["+rt.name+"]: decoder panicked", d)
					}
					continue
				}
				if safe {
					h.Inc("decodes_watched")
					if bound := uint64(1<<20) + 4096*uint64(len(in)); alloc > bound {
						d["allocated"], d["bound"] = alloc, bound
						h.Viol("bytes", ci, "", "untrusted bytes ["+rt.name+"]: allocation not bounded by the input length", d)
					}
					h.Distinct(rt.name, in)
					if ii == 1 && k == 0 && (rt.name == "Header" || rt.name == "WorkReport") {
						h.Sample(map[string]any{"type": rt.name, "mutant_len": len(in), "mutant_head": vh.Hex(in[:min(len(in), 64)]), "accepted": err == nil, "allocated_bytes": alloc})
					}
				}
				if err != nil {
					h.Inc("rejected")
					continue
				}
				h.Inc("accepted")
				if ii > 0 {
					h.Inc("accepted_mutants")
				}
				if !strict {
					continue
				}
				if rt.name == "MetaCode" && len(in) == 0 {
					// an empty blob is the repository's representation of "no code" (MetaCode takes the whole remaining input
					// by design and is not a self-delimiting wire type): not judged
					h.Inc("not_judged_empty_metacode")
					continue
				}
				if n < 0 || n > len(in) {
					d["consumed"] = n
					h.Viol("bytes", ci, "", "strictness ["+rt.name+"]: consumed more bytes than the input holds", d)
					continue
				}
				var re []byte
				if pn2, msg2, st2 := vh.Guard(func() { re, err = encode(w) }); pn2 {
					d["panic"], d["stack"] = msg2, st2
					h.Viol("bytes", ci, "", "strictness ["+rt.name+"]: accepted value cannot be re-encoded (encoder panic)", d)
					continue
				}
				if err != nil {
					d["err"] = err.Error()
					h.Viol("bytes", ci, "", "strictness ["+rt.name+"]: decoder accepted bytes whose value the encoder rejects", d)
					continue
				}
				if !bytes.Equal(re, in[:n]) {
					d["consumed"], d["reencoded"] = n, vh.Hex(re[:min(len(re), 200)])
					k := 0
					for k < len(re) && k < n && re[k] == in[k] {
						k++
					}
					d["first_difference_at"] = k
					h.Viol("bytes", ci, "", "strictness ["+rt.name+"]: accepted bytes are not the encoding of the decoded value", d)
					continue
				}
				h.Inc("accepted_and_canonical")
				h.Distinct(rt.name, in)
				if ii > 0 && n == len(in) && ci%97 == 0 {
					h.Sample(map[string]any{"type": rt.name, "accepted_mutant": vh.Hex(in[:min(len(in), 64)])})
				}
			}
		}
	}
}

func TestVerifC13(t *testing.T) {
	h := vh.Open(t, "C13")
	defer h.Done()
	driveUntrusted(h, true, false)
}

func TestVerifC14(t *testing.T) {
	h := vh.Open(t, "C14")
	defer h.Done()
	driveUntrusted(h, false, true)
	// ---- fuzz-protocol frames --------------------------------------------------------------------------------------
	var ms runtime.MemStats
	m := h.N(3000, 60000)
	for ci := 0; ci < m; ci++ {
		if !h.Mine("frame", ci) {
			continue
		}
		r := h.Rng("frame", ci)
		frame, err := genMessage(r).MarshalBinary()
		if err != nil {
			continue
		}
		inputs := [][]byte{frame}
		for i := 0; i < 5; i++ {
			f := mutate(r, frame)
			switch r.IntN(4) {
			case 0: // the 32-bit length prefix itself
				if len(f) >= 4 {
					binary.LittleEndian.PutUint32(f, []uint32{0, 1, 2, uint32(len(f)), 1 << 20, 1 << 28, 1<<31 - 1, 1 << 31, 1<<32 - 1}[r.IntN(9)])
				}
			case 1: // keep the prefix consistent with the mutated payload
				if len(f) >= 5 {
					binary.LittleEndian.PutUint32(f, uint32(len(f)-4))
				}
			}
			inputs = append(inputs, f)
		}
		for ii, in := range inputs {
			h.Case("frame", ci, "", map[string]any{"input": vh.Hex(in)})
			var msg fuzz.Message
			runtime.ReadMemStats(&ms)
			a0 := ms.TotalAlloc
			pn, pm, st := vh.Guard(func() { _, err = msg.ReadFrom(bytes.NewReader(in)) })
			runtime.ReadMemStats(&ms)
			alloc := ms.TotalAlloc - a0
			d := map[string]any{"type": "fuzz.Message", "input_len": len(in), "input": vh.Hex(in[:min(len(in), 200)]), "mutation_index": ii}
			if pn {
				d["panic"], d["stack"] = pm, st
				h.Viol("frame", ci, "", "untrusted bytes: message reader panicked", d)
				continue
			}
			if bound := uint64(1<<20) + 4096*uint64(len(in)); alloc > bound {
				d["allocated"], d["bound"] = alloc, bound
				h.Viol("frame", ci, "", "untrusted bytes: message reader allocation not bounded by the input length", d)
			}
			h.Inc("frames_watched")
			// the payload decoders themselves, on a buffer without spare capacity (ReadFrom hands them one with slack)
			if len(in) > 5 {
				for _, um := range []interface{ UnmarshalBinary([]byte) error }{new(fuzz.PeerInfo), new(fuzz.ErrorMessage), new(fuzz.ImportBlock), new(fuzz.SetState), new(fuzz.GetState), new(fuzz.State), new(fuzz.StateRoot)} {
					pl := exact(in[5:])
					if pn2, pm2, st2 := vh.Guard(func() { um.UnmarshalBinary(pl) }); pn2 {
						d["panic"], d["stack"], d["decoder"] = pm2, st2, fmt.Sprintf("%T", um)
						h.Viol("frame", ci, "", "untrusted bytes: message payload decoder panicked", d)
						break
					}
					h.Inc("payload_decodes_on_exact_capacity_buffers")
				}
			}
			if ci < 2 && ii == 1 {
				h.Sample(map[string]any{"type": "fuzz.Message", "frame_len": len(in), "frame_head": vh.Hex(in[:min(len(in), 48)]), "accepted": err == nil, "allocated_bytes": alloc})
			}
			if err == nil {
				h.Inc("frames_accepted")
			}
			h.Distinct("frame", in)
		}
	}
}


// TestVerifC11Pool: encoders drawn from the shared pool by many goroutines at once (race build). Every goroutine encodes
// values whose encoding was computed beforehand with a private encoder, returns the encoder to the pool at once (as the
// repository's callers do with `defer PutEncoder`) and only then compares the bytes it was handed: a pooled buffer that
// leaks into a result, or two goroutines sharing one encoder, shows as a wrong encoding or as a race report.
func TestVerifC11Pool(t *testing.T) {
	h := vh.Open(t, "C11")
	defer h.Done()
	types.SetTinyMode()
	rounds := h.N(40, 400)
	for ci := 0; ci < rounds; ci++ {
		if !h.Mine("pool", ci) {
			continue
		}
		h.CaseLight("pool", ci)
		r := h.Rng("pool", ci)
		type job struct {
			name string
			v    any
			want []byte
		}
		var jobs []job
		for len(jobs) < 200 {
			rt := roots[r.IntN(len(roots))]
			v := rt.mk()
			vgen.Fill(r, v)
			enc, err := encode(v)
			if err != nil || len(enc) > 4096 {
				continue
			}
			jobs = append(jobs, job{rt.name, v, enc})
		}
		G := []int{2, 4, 16, 32}[ci%4]
		var wg sync.WaitGroup
		var bad atomic.Int64
		var firstBad atomic.Value
		for g := 0; g < G; g++ {
			wg.Add(1)
			go func(g int) {
				defer wg.Done()
				gr := vh.NewR(uint64(ci)*977+uint64(g), 0xC11)
				held := make([][]byte, 0, 8)
				wants := make([][]byte, 0, 8)
				for k := 0; k < 300; k++ {
					j := jobs[gr.IntN(len(jobs))]
					e := types.GetEncoder()
					e.SetHashSegmentMap(types.HashSegmentMap{})
					out, err := e.Encode(j.v)
					types.PutEncoder(e)
					if err != nil {
						bad.Add(1)
						firstBad.CompareAndSwap(nil, j.name+": "+err.Error())
						continue
					}
					held = append(held, out)
					wants = append(wants, j.want)
					if len(held) == 8 || k == 299 { // compare late: other goroutines have reused the pooled encoders by now
						for i := range held {
							if !bytes.Equal(held[i], wants[i]) {
								bad.Add(1)
								firstBad.CompareAndSwap(nil, j.name+": bytes handed out by a pooled encoder changed or differ from a private encoder's")
							}
						}
						held, wants = held[:0], wants[:0]
					}
				}
			}(g)
		}
		wg.Wait()
		if bad.Load() > 0 {
			h.Viol("pool", ci, "", "determinism: concurrent use of pooled encoders gives other bytes than a private encoder", map[string]any{"goroutines": G, "mismatches": bad.Load(), "first": firstBad.Load()})
		}
		h.Count("pooled_encodings_under_concurrency", int64(G*300))
		h.Distinct("pool", ci)
	}
}
