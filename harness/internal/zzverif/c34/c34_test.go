// C34 — activity statistics accounting (DESIGN §2 C34).
//
// Histories of blocks are driven through statistics.UpdateValidatorActivityStatistics() on the blockchain singleton (what
// stf.UpdateStatistics calls), with the inputs the function reads set the way the STF leaves them: prior τ and π, posterior
// τ', κ', λ', η', the block (author, extrinsic), the incoming reports, the newly available reports and the accumulation
// statistics. After every block the posterior π is compared with a model written from GP 13.3–13.16 in 64-bit arithmetic;
// the model's π is carried to the next block. The harness binary is built with the race detector: the function fans out to
// three goroutines that write the posterior state.
package c34

import (
	"fmt"
	"sort"
	"testing"

	"github.com/New-JAMneration/JAM-Protocol/internal/blockchain"
	"github.com/New-JAMneration/JAM-Protocol/internal/statistics"
	"github.com/New-JAMneration/JAM-Protocol/internal/types"
	"github.com/New-JAMneration/JAM-Protocol/internal/zzverif/vgen"
	"github.com/New-JAMneration/JAM-Protocol/internal/zzverif/vh"
)

func keys(tag byte, n int, share types.ValidatorsData, r vh.R) types.ValidatorsData {
	out := make(types.ValidatorsData, n)
	for i := range out {
		if share != nil && r.IntN(3) == 0 {
			out[i] = share[r.IntN(len(share))] // a validator that stays (possibly at another index)
			continue
		}
		out[i].Ed25519[0], out[i].Ed25519[1], out[i].Ed25519[2] = tag, byte(i), byte(i>>8)
		out[i].Ed25519[31] = byte(r.IntN(256))
		out[i].Bandersnatch[0], out[i].Bandersnatch[1] = tag, byte(i)
	}
	return out
}

func cloneVals(v types.ValidatorsStatistics) types.ValidatorsStatistics {
	return append(types.ValidatorsStatistics{}, v...)
}

func TestVerifC34(t *testing.T) {
	h := vh.Open(t, "C34")
	defer h.Done()
	n := h.N(800, 16000)
	for ci := 0; ci < n; ci++ {
		if !h.Mine("hist", ci) {
			continue
		}
		h.CaseLight("hist", ci)
		full := ci%100 == 99
		if full {
			types.SetFullMode()
		} else {
			types.SetTinyMode()
		}
		history(h, ci, h.Rng("hist", ci), full)
	}
	types.SetTinyMode()
}

func history(h *vh.H, ci int, r vh.R, full bool) {
	V, C, E, R := types.ValidatorsCount, types.CoresCount, types.EpochLength, types.RotationPeriod
	lambda := keys(1, V, nil, r)
	kappa := keys(2, V, lambda, r)
	// every fourth history lives high up in the 32-bit slot range (an epoch-aligned offset near 2^16, 2^31 or just below 2^32): slot
	// arithmetic narrowed to 16 or 31 bits, or signed, goes wrong only there
	hiBase := 0
	if r.IntN(4) == 0 {
		hiBase = []int{(1 << 16) / E, (1<<16)/E - 1, (1 << 31) / E, (1<<31)/E - 1, (1<<32)/E - 60}[r.IntN(5)] * E
		h.Inc("histories_high_in_the_slot_range")
	}
	tau := types.TimeSlot(hiBase + E + R + r.IntN(E))
	pi := types.Statistics{ValsCurr: make(types.ValidatorsStatistics, V), ValsLast: make(types.ValidatorsStatistics, V)}
	for i := range pi.ValsCurr { // a history that starts in the middle of an epoch
		if r.IntN(3) == 0 {
			pi.ValsCurr[i] = types.ValidatorActivityRecord{Blocks: types.U32(r.IntN(5)), Tickets: types.U32(r.IntN(9)), Guarantees: types.U32(r.IntN(4)), Assurances: types.U32(r.IntN(4))}
		}
		if r.IntN(3) == 0 {
			pi.ValsLast[i] = types.ValidatorActivityRecord{Blocks: types.U32(r.IntN(5)), PreImages: types.U32(r.IntN(3))}
		}
	}
	services := []types.ServiceID{0, 1, 7, 255, 70000, 0xFFFFFFFF}
	blocks := 3 + r.IntN(10)
	if full {
		blocks = 2
	}
	var trace []string
	for b := 0; b < blocks; b++ {
		gap := 1 + r.IntN(3)
		switch r.IntN(8) {
		case 0:
			gap = E - int(tau)%E // first slot of the next epoch
		case 1:
			gap = E
		case 2:
			gap = 2*E + 1
		}
		tauP := tau + types.TimeSlot(gap)
		epochChange := int(tauP)/E != int(tau)/E
		if epochChange {
			lambda = kappa
			kappa = keys(byte(3+b), V, lambda, r)
		}
		var eta types.EntropyBuffer
		for i := range eta {
			copy(eta[i][:], r.Bytes(32))
		}
		author := types.ValidatorIndex(r.IntN(V))
		var ext types.Extrinsic
		// tickets
		for i, nt := 0, r.IntN(4); i < nt; i++ {
			var te types.TicketEnvelope
			vgen.Fill(r, &te)
			ext.Tickets = append(ext.Tickets, te)
		}
		// preimages
		for i, np := 0, r.IntN(4); i < np; i++ {
			ext.Preimages = append(ext.Preimages, types.Preimage{Requester: services[r.IntN(len(services))], Blob: r.Bytes([]int{0, 1, 33, 200, 5000}[r.IntN(5)])})
		}
		// guarantees: at most one per core
		mkReport := func(c int) types.WorkReport {
			var w types.WorkReport
			w.CoreIndex = types.CoreIndex(c)
			w.PackageSpec.Length = types.U32(r.IntN(100000))
			w.PackageSpec.ExportsCount = types.U16([]int{0, 1, 63, 64, 65, 127, 128, 3072}[r.IntN(8)])
			copy(w.PackageSpec.Hash[:], r.Bytes(32))
			for i, nr := 0, 1+r.IntN(3); i < nr; i++ {
				w.Results = append(w.Results, types.WorkResult{ServiceID: services[r.IntN(len(services))],
					RefineLoad: types.RefineLoad{GasUsed: types.Gas(r.IntN(1_000_000)), Imports: types.U16(r.IntN(300)), ExtrinsicCount: types.U16(r.IntN(20)),
						ExtrinsicSize: types.U32(r.IntN(1 << 20)), Exports: types.U16(r.IntN(300))}})
			}
			return w
		}
		var present []types.WorkReport
		for c := 0; c < C; c++ {
			if r.IntN(2) == 0 || (full && r.IntN(30) != 0) {
				continue
			}
			w := mkReport(c)
			slot := tauP // same rotation
			if r.IntN(3) == 0 && int(tauP)%R < R {
				slot = types.TimeSlot((int(tauP)/R)*R - 1 - r.IntN(R)) // previous rotation
			}
			g := types.ReportGuarantee{Report: w, Slot: slot}
			for _, vi := range r.Perm(V)[:2+r.IntN(2)] {
				g.Signatures = append(g.Signatures, types.ValidatorSignature{ValidatorIndex: types.ValidatorIndex(vi)})
			}
			sort.Slice(g.Signatures, func(i, j int) bool { return g.Signatures[i].ValidatorIndex < g.Signatures[j].ValidatorIndex })
			ext.Guarantees = append(ext.Guarantees, g)
			present = append(present, w)
		}
		// assurances
		for _, vi := range r.Perm(V)[:r.IntN(min(V, 8)+1)] {
			bf := make(types.Bitfield, C)
			for c := range bf {
				bf[c] = byte(r.IntN(2))
			}
			ext.Assurances = append(ext.Assurances, types.AvailAssurance{Bitfield: bf, ValidatorIndex: types.ValidatorIndex(vi)})
		}
		sort.Slice(ext.Assurances, func(i, j int) bool { return ext.Assurances[i].ValidatorIndex < ext.Assurances[j].ValidatorIndex })
		// newly available reports and accumulation statistics
		var available []types.WorkReport
		for c := 0; c < C; c++ {
			if r.IntN(3) == 0 && !(full && r.IntN(30) != 0) {
				available = append(available, mkReport(c))
			}
		}
		acc := types.AccumulationStatistics{}
		for _, s := range services {
			if r.IntN(3) == 0 {
				acc[s] = types.GasAndNumAccumulatedReports{Gas: types.Gas(r.IntN(1 << 30)), NumAccumulatedReports: types.U64(1 + r.IntN(5))}
				if r.IntN(4) == 0 {
					// accumulated without any work report of its own (through deferred transfers, or as an always-accumulate service):
					// gas was used, no report counted; the record is still part of the block's service statistics
					acc[s] = types.GasAndNumAccumulatedReports{Gas: types.Gas(1 + r.IntN(1<<30)), NumAccumulatedReports: 0}
					h.Inc("services_accumulated_without_a_report")
				}
			}
		}

		// ---- model -----------------------------------------------------------------------------------------------------
		var wantCurr, wantLast types.ValidatorsStatistics
		if epochChange {
			wantCurr, wantLast = make(types.ValidatorsStatistics, V), cloneVals(pi.ValsCurr)
		} else {
			wantCurr, wantLast = cloneVals(pi.ValsCurr), cloneVals(pi.ValsLast)
		}
		wantCurr[author].Blocks++
		wantCurr[author].Tickets += types.U32(len(ext.Tickets))
		wantCurr[author].PreImages += types.U32(len(ext.Preimages))
		for _, p := range ext.Preimages {
			wantCurr[author].PreImagesSize += types.U32(len(p.Blob))
		}
		reporters := map[types.Ed25519Public]bool{}
		for _, g := range ext.Guarantees {
			ks := kappa
			if int(g.Slot)/R != int(tauP)/R && (int(tauP)-R)/E != int(tauP)/E {
				ks = lambda
			}
			for _, s := range g.Signatures {
				reporters[ks[s.ValidatorIndex].Ed25519] = true
			}
		}
		for v := range kappa {
			if reporters[kappa[v].Ed25519] {
				wantCurr[v].Guarantees++
			}
		}
		for _, a := range ext.Assurances {
			wantCurr[a.ValidatorIndex].Assurances++
		}
		wantCores := make(types.CoresStatistics, C)
		for _, w := range present {
			c := &wantCores[w.CoreIndex]
			for _, d := range w.Results {
				c.Imports += d.RefineLoad.Imports
				c.ExtrinsicCount += d.RefineLoad.ExtrinsicCount
				c.ExtrinsicSize += d.RefineLoad.ExtrinsicSize
				c.Exports += d.RefineLoad.Exports
				c.GasUsed += d.RefineLoad.GasUsed
			}
			c.BundleSize = w.PackageSpec.Length
		}
		for _, w := range available {
			n := uint64(w.PackageSpec.ExportsCount)
			wantCores[w.CoreIndex].DALoad = types.U32(uint64(w.PackageSpec.Length) + uint64(types.SegmentSize)*((n*65+63)/64))
		}
		for _, a := range ext.Assurances {
			for c := 0; c < C; c++ {
				wantCores[c].Popularity += types.U16(a.Bitfield[c])
			}
		}
		wantSvc := types.ServicesStatistics{}
		for _, p := range ext.Preimages {
			s := wantSvc[p.Requester]
			s.ProvidedCount++
			s.ProvidedSize += types.U32(len(p.Blob))
			wantSvc[p.Requester] = s
		}
		for _, w := range present {
			for _, d := range w.Results {
				s := wantSvc[d.ServiceID]
				s.RefinementCount++
				s.RefinementGasUsed += d.RefineLoad.GasUsed
				s.Imports += types.U32(d.RefineLoad.Imports)
				s.ExtrinsicCount += types.U32(d.RefineLoad.ExtrinsicCount)
				s.ExtrinsicSize += d.RefineLoad.ExtrinsicSize
				s.Exports += types.U32(d.RefineLoad.Exports)
				wantSvc[d.ServiceID] = s
			}
		}
		for id, a := range acc {
			s := wantSvc[id]
			s.AccumulateCount, s.AccumulateGasUsed = types.U32(a.NumAccumulatedReports), a.Gas
			wantSvc[id] = s
		}

		// ---- implementation ----------------------------------------------------------------------------------------------
		var got types.Statistics
		pn, msg, st := vh.Guard(func() {
			blockchain.ResetInstance()
			cs := blockchain.GetInstance()
			cs.AddBlock(types.Block{Header: types.Header{Slot: tauP, AuthorIndex: author}, Extrinsic: ext})
			cs.GetIntermediateStates().SetPresentWorkReports(present)
			cs.GetIntermediateStates().SetAvailableWorkReports(available)
			cs.GetIntermediateStates().SetAccumulationStatistics(acc)
			cs.GetPriorStates().SetTau(tau)
			cs.GetPriorStates().SetPiCurrent(cloneVals(pi.ValsCurr))
			cs.GetPriorStates().SetPiLast(cloneVals(pi.ValsLast))
			cs.GetPosteriorStates().SetTau(tauP)
			cs.GetPosteriorStates().SetKappa(kappa)
			cs.GetPosteriorStates().SetLambda(lambda)
			cs.GetPosteriorStates().SetEta(eta)
			statistics.UpdateValidatorActivityStatistics()
			got = cs.GetPosteriorStates().GetPi()
		})
		trace = append(trace, fmt.Sprintf("gap%d%s:T%dP%dG%dA%d", gap, map[bool]string{true: "*", false: ""}[epochChange], len(ext.Tickets), len(ext.Preimages), len(ext.Guarantees), len(ext.Assurances)))
		d := map[string]any{"block": b, "validators": V, "tau": tau, "tau_prime": tauP, "epoch_change": epochChange, "author": author, "history": fmt.Sprint(trace),
			"tickets": len(ext.Tickets), "preimages": len(ext.Preimages), "guarantees": len(ext.Guarantees), "assurances": len(ext.Assurances), "available": len(available)}
		if pn {
			d["panic"], d["stack"] = msg, st
			h.Viol("hist", ci, "", "statistics update panicked", d)
			return
		}
		if df := vgen.Diff(wantCurr, got.ValsCurr, "current"); df != "" {
			d["first_difference"] = df
			h.Viol("hist", ci, "", "validator records of the current epoch differ from the model", d)
			return
		}
		if df := vgen.Diff(wantLast, got.ValsLast, "previous"); df != "" {
			d["first_difference"] = df
			h.Viol("hist", ci, "", "validator records of the previous epoch differ from the model (rollover)", d)
			return
		}
		if df := vgen.Diff(wantCores, got.Cores, "cores"); df != "" {
			d["first_difference"] = df
			h.Viol("hist", ci, "", "core records differ from the model", d)
			return
		}
		if df := vgen.Diff(wantSvc, got.Services, "services"); df != "" {
			d["first_difference"] = df
			h.Viol("hist", ci, "", "service records differ from the model", d)
			return
		}
		h.Inc("blocks")
		if epochChange {
			h.Inc("blocks_at_an_epoch_change")
		}
		prevRot := 0
		for _, g := range ext.Guarantees {
			if int(g.Slot)/R != int(tauP)/R {
				prevRot++
			}
		}
		h.Count("guarantees", int64(len(ext.Guarantees)))
		h.Count("guarantees_from_the_previous_rotation", int64(prevRot))
		h.Count("assurances", int64(len(ext.Assurances)))
		h.Count("preimages", int64(len(ext.Preimages)))
		h.Count("service_records", int64(len(wantSvc)))
		if len(available) > 0 {
			h.Inc("blocks_with_available_reports")
		}
		pi.ValsCurr, pi.ValsLast = wantCurr, wantLast
		tau = tauP
	}
	if full {
		h.Inc("histories_full_params")
	}
	h.Distinct(fmt.Sprint(trace), ci)
	if ci < 2 {
		h.Sample(map[string]any{"history": fmt.Sprint(trace), "validators": V})
	}
}
