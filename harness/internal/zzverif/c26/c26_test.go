// C26 — block import is atomic and repeatable (DESIGN §2 C26).
//
// A producer written from GP chapter 6 (the C23 model) makes valid blocks on a synthetic genesis: fallback- and
// ticket-sealed, with epoch marks, tickets marks and ticket extrinsics, signed with the deterministic VRF stand-in. The
// blocks are fed to the node through fuzz.FuzzServiceStub (SetState / ImportBlock / GetState), the conformance entry point.
//
// Oracle (run-vs-run, no model of the full STF is needed):
//   - a CONTROL node imports only the valid blocks of a path, in order; it defines the state root of every block;
//   - the node UNDER TEST imports the same blocks interleaved with invalid ones (slot not advancing, wrong parent state
//     root, wrong extrinsic hash, unsorted tickets under a correct extrinsic hash and seal, flipped seal byte, wrong
//     author), retries of rejected blocks, sibling forks and re-imports;
//   - every successful import must return the control root of that block; after every rejection GetState of the blocks
//     imported so far must return exactly the key-values it returned before, and the next valid block must import with
//     the control root; two fresh nodes importing the same path must agree.
package c26

import (
	"bytes"
	"crypto/sha256"
	"encoding/binary"
	"fmt"
	"sort"
	"testing"

	"github.com/New-JAMneration/JAM-Protocol/internal/fuzz"
	"github.com/New-JAMneration/JAM-Protocol/internal/types"
	"github.com/New-JAMneration/JAM-Protocol/internal/utilities"
	"github.com/New-JAMneration/JAM-Protocol/internal/utilities/hash"
	m "github.com/New-JAMneration/JAM-Protocol/internal/utilities/merklization"
	"github.com/New-JAMneration/JAM-Protocol/internal/zzverif/vh"
	"github.com/New-JAMneration/JAM-Protocol/logger"
	vrf "github.com/New-JAMneration/JAM-Protocol/pkg/Rust-VRF/vrf-func-ffi/src"
	"golang.org/x/crypto/blake2b"
)

type key struct {
	sk []byte
	v  types.Validator
}

func mkKey(tag string, i int) key {
	sk := sha256.Sum256([]byte(fmt.Sprintf("c26-%s-%d", tag, i)))
	pk, _ := vrf.GetPublicKeyFromSecret(sk[:])
	var k key
	k.sk = sk[:]
	copy(k.v.Bandersnatch[:], pk)
	k.v.Ed25519[0] = byte(i)
	copy(k.v.Ed25519[1:], sk[:16])
	return k
}

// chain-tip state of the producer's safrole model
type tip struct {
	tau       int
	eta       [4]types.Entropy
	gk, ka    []key // iota = gk = kappa = lambda: one fixed validator set
	ga        []types.TicketBody
	gsTickets []types.TicketBody
	gsKeys    []types.BandersnatchPublic
	used      map[types.TicketID]bool
	hash      types.HeaderHash
	root      types.StateRoot
	height    int
}

func (t *tip) clone() *tip {
	c := *t
	c.ga = append([]types.TicketBody(nil), t.ga...)
	c.gsTickets = append([]types.TicketBody(nil), t.gsTickets...)
	c.gsKeys = append([]types.BandersnatchPublic(nil), t.gsKeys...)
	c.used = map[types.TicketID]bool{}
	for k := range t.used {
		c.used[k] = true
	}
	return &c
}

func fallback(eta2 types.Entropy, kappa []key, E int) []types.BandersnatchPublic {
	out := make([]types.BandersnatchPublic, E)
	for i := 0; i < E; i++ {
		var le [4]byte
		binary.LittleEndian.PutUint32(le[:], uint32(i))
		hsh := blake2b.Sum256(append(append([]byte{}, eta2[:]...), le[:]...))
		out[i] = kappa[int(binary.LittleEndian.Uint32(hsh[:4]))%len(kappa)].v.Bandersnatch
	}
	return out
}

func outsideIn(a []types.TicketBody) []types.TicketBody {
	out := make([]types.TicketBody, 0, len(a))
	for i, j := 0, len(a)-1; i <= j; i, j = i+1, j-1 {
		out = append(out, a[i])
		if i != j {
			out = append(out, a[j])
		}
	}
	return out
}

func ticketCtx(eta types.Entropy, attempt uint64) []byte {
	return append(append([]byte(types.JamTicketSeal), eta[:]...), byte(attempt))
}

type world struct {
	keys   []key
	owner  map[types.TicketID][2]int // ticket id -> (validator, attempt)
	genHdr types.Header
	genKV  types.StateKeyVals
}

// produce makes a valid child of parent at slot tauP with nTickets ticket envelopes; it returns the block and the new tip
// (whose root is still unknown).
func (w *world) produce(r vh.R, parent *tip, tauP int, nTickets int) (types.Block, *tip) {
	V, E, Y, N := types.ValidatorsCount, types.EpochLength, types.SlotSubmissionEnd, types.TicketsPerValidator
	e, mm := parent.tau/E, parent.tau%E
	eP, mP := tauP/E, tauP%E
	nt := parent.clone()
	nt.tau = tauP
	nt.height++
	if eP > e {
		nt.eta[1], nt.eta[2], nt.eta[3] = parent.eta[0], parent.eta[1], parent.eta[2]
		nt.used = map[types.TicketID]bool{}
	}
	switch {
	case eP == e+1 && mm >= Y && len(parent.ga) == E:
		nt.gsTickets, nt.gsKeys = outsideIn(parent.ga), nil
	case eP == e:
	default:
		nt.gsTickets, nt.gsKeys = nil, fallback(nt.eta[2], parent.ka, E)
	}
	// author
	author, sealCtx := -1, []byte(nil)
	if len(nt.gsTickets) > 0 {
		tk := nt.gsTickets[tauP%E]
		o := w.owner[tk.ID]
		author = o[0]
		sealCtx = ticketCtx(nt.eta[3], uint64(tk.Attempt))
	} else {
		k := nt.gsKeys[tauP%E]
		for i := range parent.ka {
			if parent.ka[i].v.Bandersnatch == k {
				author = i
				break
			}
		}
		sealCtx = append([]byte(types.JamFallbackSeal), nt.eta[3][:]...)
	}
	ak := parent.ka[author]
	// tickets extrinsic
	var ext types.Extrinsic
	carried := parent.ga
	if eP > e {
		carried = nil
	}
	type cand struct {
		env types.TicketEnvelope
		id  types.TicketID
		att uint64
	}
	var cs []cand
	if mP < Y {
		for tries := 0; len(cs) < nTickets && tries < 100; tries++ {
			vi, att := r.IntN(V), uint64(r.IntN(N))
			ctx := ticketCtx(nt.eta[2], att)
			var id types.TicketID
			copy(id[:], vrf.Output(w.keys[vi].v.Bandersnatch[:], ctx))
			if nt.used[id] {
				continue
			}
			nt.used[id] = true
			w.owner[id] = [2]int{vi, int(att)}
			var env types.TicketEnvelope
			env.Attempt = types.TicketAttempt(att)
			copy(env.Signature[:], vrf.RingSign(w.keys[vi].sk, ctx, nil))
			cs = append(cs, cand{env, id, att})
		}
	}
	sort.Slice(cs, func(i, j int) bool { return bytes.Compare(cs[i].id[:], cs[j].id[:]) < 0 })
	all := append([]types.TicketBody{}, carried...)
	for _, c := range cs {
		ext.Tickets = append(ext.Tickets, c.env)
		all = append(all, types.TicketBody{ID: c.id, Attempt: types.TicketAttempt(c.att)})
	}
	sort.Slice(all, func(i, j int) bool { return bytes.Compare(all[i].ID[:], all[j].ID[:]) < 0 })
	if len(all) > E {
		all = all[:E]
	}
	nt.ga = all
	// header
	var hd types.Header
	hd.Parent = parent.hash
	hd.ParentStateRoot = parent.root
	hd.Slot = types.TimeSlot(tauP)
	hd.AuthorIndex = types.ValidatorIndex(author)
	xh, err := utilities.CreateExtrinsicHash(ext)
	if err != nil {
		panic(err)
	}
	hd.ExtrinsicHash = xh
	if eP > e {
		em := &types.EpochMark{Entropy: parent.eta[0], TicketsEntropy: parent.eta[1]}
		for _, k := range parent.gk { // gamma_k' = Phi(iota) = the fixed set
			em.Validators = append(em.Validators, types.EpochMarkValidatorKeys{Bandersnatch: k.v.Bandersnatch, Ed25519: k.v.Ed25519})
		}
		hd.EpochMark = em
	}
	if eP == e && mm < Y && mP >= Y && len(parent.ga) == E {
		tm := types.TicketsMark(outsideIn(parent.ga))
		hd.TicketsMark = &tm
	}
	// H_v signs X_E ‖ Y(H_s); Y(H_s) does not depend on the message
	y := vrf.Output(ak.v.Bandersnatch[:], sealCtx)
	hv, _ := vrf.IETFSign(ak.sk, append([]byte(types.JamEntropy), y...), nil)
	copy(hd.EntropySource[:], hv)
	w.seal(&hd, ak, sealCtx)
	nt.eta[0] = blake2b.Sum256(append(append([]byte{}, parent.eta[0][:]...), hv[:32]...))
	hh, err := hash.ComputeBlockHeaderHash(hd)
	if err != nil {
		panic(err)
	}
	nt.hash = types.HeaderHash(hh)
	return types.Block{Header: hd, Extrinsic: ext}, nt
}

func (w *world) seal(hd *types.Header, ak key, sealCtx []byte) {
	msg, err := utilities.HeaderUSerialization(*hd)
	if err != nil {
		panic(err)
	}
	hs, _ := vrf.IETFSign(ak.sk, sealCtx, msg)
	copy(hd.Seal[:], hs)
}

func genesis(r vh.R) (*world, *tip) {
	V, C, E := types.ValidatorsCount, types.CoresCount, types.EpochLength
	w := &world{owner: map[types.TicketID][2]int{}}
	// one of four validator sets: consecutive chains of one process then belong to different "networks", and whatever the node
	// keeps per epoch number beyond a SetState (ring verifier, caches) would show
	vset := fmt.Sprintf("v%d-", r.IntN(4))
	for i := 0; i < V; i++ {
		w.keys = append(w.keys, mkKey(vset, i))
	}
	t := &tip{tau: 0, gk: w.keys, ka: w.keys, used: map[types.TicketID]bool{}}
	for i := range t.eta {
		copy(t.eta[i][:], r.Bytes(32))
	}
	t.gsKeys = fallback(t.eta[2], t.ka, E)
	var s types.State
	vd := make(types.ValidatorsData, V)
	for i, k := range w.keys {
		vd[i] = k.v
	}
	cp := func() types.ValidatorsData { return append(types.ValidatorsData{}, vd...) }
	s.Iota, s.Kappa, s.Lambda, s.Gamma.GammaK = cp(), cp(), cp(), cp()
	s.Gamma.GammaS = types.TicketsOrKeys{Keys: t.gsKeys}
	s.Gamma.GammaA = types.TicketsAccumulator{}
	ring := []byte{}
	for _, k := range w.keys {
		ring = append(ring, k.v.Bandersnatch[:]...)
	}
	if ver, err := vrf.NewVerifier(ring, uint(V)); err == nil {
		cm, _ := ver.GetCommitment()
		copy(s.Gamma.GammaZ[:], cm)
	}
	s.Eta = types.EntropyBuffer(t.eta)
	s.Alpha = make(types.AuthPools, C)
	s.Varphi = make(types.AuthQueues, C)
	for c := 0; c < C; c++ {
		s.Alpha[c] = types.AuthPool{}
		s.Varphi[c] = make(types.AuthQueue, types.AuthQueueSize)
	}
	s.Rho = make(types.AvailabilityAssignments, C)
	s.Chi = types.Privileges{Assign: make(types.ServiceIDList, C), AlwaysAccum: types.AlwaysAccumulateMap{}}
	s.Pi = types.Statistics{ValsCurr: make(types.ValidatorsStatistics, V), ValsLast: make(types.ValidatorsStatistics, V), Cores: make(types.CoresStatistics, C)}
	s.Vartheta = make(types.ReadyQueue, E)
	s.Xi = make(types.AccumulatedQueue, E)
	s.Delta = types.ServiceAccountState{}
	// a service without code, with a few storage entries: makes the state (and the raw key-value pool) non-trivial
	acc := types.ServiceAccount{ServiceInfo: types.ServiceInfo{Balance: 1000, Items: 2, Bytes: 80}, PreimageLookup: types.PreimagesMapEntry{}, LookupDict: types.LookupMetaMapEntry{}, StorageDict: types.Storage{}}
	acc.StorageDict["k1"] = r.Bytes(20)
	acc.StorageDict["k2"] = r.Bytes(40)
	s.Delta[7] = acc
	kv, err := m.StateEncoder(s)
	if err != nil {
		panic(err)
	}
	w.genKV = kv
	w.genHdr = types.Header{Slot: 0}
	copy(w.genHdr.Parent[:], r.Bytes(32))
	hh, _ := hash.ComputeBlockHeaderHash(w.genHdr)
	t.hash = types.HeaderHash(hh)
	return w, t
}

func kvMap(kvs types.StateKeyVals) map[types.StateKey]string {
	out := make(map[types.StateKey]string, len(kvs))
	for _, kv := range kvs {
		out[kv.Key] = string(kv.Value)
	}
	return out
}

func sameKV(a, b map[types.StateKey]string) bool {
	if len(a) != len(b) {
		return false
	}
	for k, v := range a {
		if w, ok := b[k]; !ok || v != w {
			return false
		}
	}
	return true
}

// a fork off the main chain as the node under test imported it: after main-chain block at-1, these blocks, these roots
type branch struct {
	at     int
	blocks []types.Block
	roots  []types.StateRoot
}

type planned struct {
	blk  types.Block
	tip  *tip
	root types.StateRoot // from the control node
}

func TestVerifC26(t *testing.T) {
	h := vh.Open(t, "C26")
	defer h.Done()
	types.SetTinyMode()
	logger.ConfigureLogger("main", logger.LoggerConfig{Level: "FATAL", Enabled: false})
	n := h.N(120, 1200)
	for ci := 0; ci < n; ci++ {
		if !h.Mine("chain", ci) {
			continue
		}
		h.Case("chain", ci, "", map[string]any{})
		scenario(h, ci, h.Rng("chain", ci))
	}
}

func scenario(h *vh.H, ci int, r vh.R) {
	E, K := types.EpochLength, types.MaxTicketsPerBlock
	svc := &fuzz.FuzzServiceStub{}
	w, g := genesis(r)
	fail := func(class string, d map[string]any) { h.Viol("chain", ci, "", class, d) }
	// every third chain runs with the fuzz protocol's ancestry feature on: SetState is given an ancestry list, the node then
	// keeps it up to date at every commit / restore and refuses fork blocks older than the newest ancestor
	var anc types.Ancestry
	withAncestry := ci%3 == 1
	if withAncestry {
		anc = types.Ancestry{{Slot: 0, HeaderHash: g.hash}}
		h.Inc("chains_with_ancestry_tracking")
	}
	ancestry := func() types.Ancestry { return append(types.Ancestry(nil), anc...) }

	// ---- control node: the main chain, valid blocks only ------------------------------------------------------------------------
	root0, err := svc.SetState(w.genHdr, w.genKV.DeepCopy(), ancestry())
	if err != nil {
		fail("genesis rejected", map[string]any{"err": err.Error()})
		return
	}
	g.root = root0
	length := 20 + r.IntN(25)
	var chain []planned
	cur := g
	for b := 0; b < length; b++ {
		gap := 1
		if r.IntN(8) == 0 {
			gap = 2 + r.IntN(3)
		}
		if r.IntN(25) == 0 {
			gap = E + r.IntN(3)
		}
		blk, nt := w.produce(r, cur, cur.tau+gap, r.IntN(K+1))
		var root types.StateRoot
		var ierr error
		if pn, msg, st := vh.Guard(func() { root, ierr = svc.ImportBlock(blk) }); pn {
			fail("import panicked on a valid block", map[string]any{"block": b, "slot": nt.tau, "panic": msg, "stack": st})
			return
		}
		if ierr != nil {
			fail("control node rejects a block the producer's model considers valid", map[string]any{"block": b, "slot": nt.tau, "parent_slot": cur.tau, "tickets": len(blk.Extrinsic.Tickets),
				"ticket_sealed": len(nt.gsTickets) > 0, "epoch_change": nt.tau/E > cur.tau/E, "err": ierr.Error()})
			return
		}
		nt.root = root
		chain = append(chain, planned{blk, nt, root})
		cur = nt
		if len(nt.gsTickets) > 0 {
			h.Inc("ticket_sealed_blocks")
		}
		if blk.Header.EpochMark != nil {
			h.Inc("epoch_changes")
		}
		if blk.Header.TicketsMark != nil {
			h.Inc("blocks_with_tickets_mark")
		}
	}
	h.Count("valid_blocks_on_control_nodes", int64(len(chain)))

	// ---- second fresh node, same sequence: identical roots ------------------------------------------------------------------------
	if _, err := svc.SetState(w.genHdr, w.genKV.DeepCopy(), ancestry()); err != nil {
		fail("genesis rejected the second time", nil)
		return
	}
	for b, p := range chain[:min(len(chain), 8)] {
		root, ierr := svc.ImportBlock(p.blk)
		if ierr != nil || root != p.root {
			fail("two fresh nodes importing the same sequence disagree", map[string]any{"block": b, "err": fmt.Sprint(ierr)})
			return
		}
	}

	// ---- node under test: the same chain with hostile blocks in between ------------------------------------------------------------
	if _, err := svc.SetState(w.genHdr, w.genKV.DeepCopy(), ancestry()); err != nil {
		fail("genesis rejected the third time", nil)
		return
	}
	imported := []types.HeaderHash{g.hash}
	snap := map[types.HeaderHash]map[types.StateKey]string{}
	getState := func(hh types.HeaderHash) (map[types.StateKey]string, error) {
		kvs, err := svc.GetState(hh)
		if err != nil {
			return nil, err
		}
		return kvMap(kvs), nil
	}
	if s0, err := getState(g.hash); err == nil {
		snap[g.hash] = s0
	}
	parentOf := func(b int) *tip {
		if b == 0 {
			return g
		}
		return chain[b-1].tip
	}
	var trace []string
	var branches []branch
	headSlot := 0 // slot of the block the node under test imported last
	seenBlocks := map[types.HeaderHash]bool{}
	for b, p := range chain {
		parent := parentOf(b)
		// hostile interludes before the valid block b
		for k := 0; k < r.IntN(3); k++ {
			kind := []string{"slot not advancing", "wrong parent state root", "wrong extrinsic hash", "unsorted tickets", "flipped seal byte", "wrong author", "valid sibling", "re-import of an earlier block",
				"flipped entropy-source byte", "unsolicited preimage", "assurance with a bad signature", "guarantee with bad signatures", "ticket already in the accumulator"}[r.IntN(13)]
			bad := p.blk
			bad.Extrinsic.Tickets = append(types.TicketsExtrinsic(nil), p.blk.Extrinsic.Tickets...)
			expectReject := true
			var sibTip *tip
			resign := func(hd *types.Header, author int, slot int) {
				// keep everything else valid: recompute the seal for the modified header
				nt := p.tip
				var ctx []byte
				if len(nt.gsTickets) > 0 {
					ctx = ticketCtx(nt.eta[3], uint64(nt.gsTickets[slot%E].Attempt))
				} else {
					ctx = append([]byte(types.JamFallbackSeal), nt.eta[3][:]...)
				}
				w.seal(hd, w.keys[author], ctx)
			}
			switch kind {
			case "slot not advancing":
				sl := parent.tau - r.IntN(2)
				if sl < 1 { // (judged in int: a genesis at slot 0 has no earlier slot, and 0-1 as a TimeSlot is the far future)
					continue
				}
				bad.Header.Slot = types.TimeSlot(sl)
				resign(&bad.Header, int(bad.Header.AuthorIndex), int(p.tip.tau))
			case "wrong parent state root":
				bad.Header.ParentStateRoot[r.IntN(32)] ^= 1 << uint(r.IntN(8))
				resign(&bad.Header, int(bad.Header.AuthorIndex), p.tip.tau)
			case "wrong extrinsic hash":
				bad.Header.ExtrinsicHash[r.IntN(32)] ^= 1
				resign(&bad.Header, int(bad.Header.AuthorIndex), p.tip.tau)
			case "unsorted tickets":
				if len(bad.Extrinsic.Tickets) < 2 {
					continue
				}
				bad.Extrinsic.Tickets[0], bad.Extrinsic.Tickets[1] = bad.Extrinsic.Tickets[1], bad.Extrinsic.Tickets[0]
				xh, _ := utilities.CreateExtrinsicHash(bad.Extrinsic)
				bad.Header.ExtrinsicHash = xh
				resign(&bad.Header, int(bad.Header.AuthorIndex), p.tip.tau)
			case "ticket already in the accumulator":
				// passes the order, attempt and proof checks and fails only at the late duplicate-against-accumulator check (GP 6.33),
				// i.e. after the transition has started to build the new accumulator from the prior one
				if p.tip.tau/E != parent.tau/E || p.tip.tau%E >= types.SlotSubmissionEnd || len(parent.ga) == 0 {
					continue
				}
				tb := parent.ga[r.IntN(len(parent.ga))]
				ow, ok := w.owner[tb.ID]
				if !ok {
					continue
				}
				var env types.TicketEnvelope
				env.Attempt = types.TicketAttempt(ow[1])
				copy(env.Signature[:], vrf.RingSign(w.keys[ow[0]].sk, ticketCtx(p.tip.eta[2], uint64(ow[1])), nil))
				bad.Extrinsic.Tickets = types.TicketsExtrinsic{env}
				xh, _ := utilities.CreateExtrinsicHash(bad.Extrinsic)
				bad.Header.ExtrinsicHash = xh
				resign(&bad.Header, int(bad.Header.AuthorIndex), p.tip.tau)
			case "flipped seal byte":
				bad.Header.Seal[32+r.IntN(32)] ^= 1
			case "flipped entropy-source byte":
				bad.Header.EntropySource[32+r.IntN(32)] ^= 1
				resign(&bad.Header, int(bad.Header.AuthorIndex), p.tip.tau)
			case "wrong author":
				bad.Header.AuthorIndex = types.ValidatorIndex((int(bad.Header.AuthorIndex) + 1 + r.IntN(types.ValidatorsCount-1)) % types.ValidatorsCount)
				resign(&bad.Header, int(bad.Header.AuthorIndex), p.tip.tau)
			case "unsolicited preimage", "assurance with a bad signature", "guarantee with bad signatures":
				// blocks that pass every header check and fail late in the state transition, after the safrole, history and
				// dispute steps have already written posterior / intermediate state
				switch kind {
				case "unsolicited preimage":
					bad.Extrinsic.Preimages = types.PreimagesExtrinsic{{Requester: 7, Blob: r.Bytes(1 + r.IntN(30))}}
				case "assurance with a bad signature":
					a := types.AvailAssurance{Anchor: parent.hash, Bitfield: make(types.Bitfield, types.CoresCount), ValidatorIndex: types.ValidatorIndex(r.IntN(types.ValidatorsCount))}
					copy(a.Signature[:], r.Bytes(64))
					bad.Extrinsic.Assurances = types.AssurancesExtrinsic{a}
				default:
					var g types.ReportGuarantee
					g.Slot = types.TimeSlot(p.tip.tau)
					g.Report.CoreIndex = types.CoreIndex(r.IntN(types.CoresCount))
					copy(g.Report.PackageSpec.Hash[:], r.Bytes(32))
					g.Report.Context.Anchor = parent.hash
					g.Report.Results = []types.WorkResult{{ServiceID: 7, Result: types.WorkExecResult{Type: types.WorkExecResultOk}}}
					for _, vi := range []int{0, 1} {
						var sg types.ValidatorSignature
						sg.ValidatorIndex = types.ValidatorIndex(vi)
						copy(sg.Signature[:], r.Bytes(64))
						g.Signatures = append(g.Signatures, sg)
					}
					bad.Extrinsic.Guarantees = types.GuaranteesExtrinsic{g}
				}
				xh, xerr := utilities.CreateExtrinsicHash(bad.Extrinsic)
				if xerr != nil {
					h.Inc("hostile kind not encodable: " + kind)
					continue
				}
				bad.Header.ExtrinsicHash = xh
				resign(&bad.Header, int(bad.Header.AuthorIndex), p.tip.tau)
				h.Inc("late_failing_blocks")
			case "valid sibling":
				// another valid child of the same parent (other slot or other tickets): accepted, then the main chain goes on from the parent
				sibSlot := parent.tau + 1 + r.IntN(3)
				if withAncestry && sibSlot > p.tip.tau {
					sibSlot = p.tip.tau // with ancestry tracking the node refuses blocks older than its newest ancestor: keep the main chain importable
				}
				if withAncestry && sibSlot < headSlot {
					continue // (a second fork off the same parent, older than the first: legitimately refused with ancestry tracking)
				}
				sib, st := w.produce(r, parent, sibSlot, r.IntN(K+1))
				sibTip = st
				if st.hash == p.tip.hash || seenBlocks[st.hash] {
					continue // the very same block (same slot, same tickets): importing a block twice is not what is judged here
				}
				seenBlocks[st.hash] = true
				bad, expectReject = sib, false
			case "re-import of an earlier block":
				if b < 2 {
					continue
				}
				bad, expectReject = chain[r.IntN(b-1)].blk, false // outcome not judged: only that it does not disturb what follows
			}
			var root types.StateRoot
			var ierr error
			if pn, msg, st := vh.Guard(func() { root, ierr = svc.ImportBlock(bad) }); pn {
				fail("import panicked on a hostile block", map[string]any{"block": b, "kind": kind, "panic": msg, "stack": st, "trace": fmt.Sprint(trace)})
				return
			}
			if ierr == nil {
				headSlot = int(bad.Header.Slot)
			}
			trace = append(trace, fmt.Sprintf("%d:%s=%v", b, kind, ierr == nil))
			if len(trace) > 10 {
				trace = trace[1:]
			}
			h.Inc("hostile: " + kind)
			_ = root
			if expectReject {
				if ierr == nil {
					fail("an invalid block was accepted: "+kind, map[string]any{"block": b, "trace": fmt.Sprint(trace), "slot": bad.Header.Slot, "parent_slot": parent.tau})
					return
				}
				h.Inc("rejections")
				if kind == "ticket already in the accumulator" {
					h.Inc("resubmitted ticket rejected with: " + ierr.Error())
				}
				// (a) the state of everything imported so far is unchanged
				for _, hh := range imported[max(0, len(imported)-3):] {
					now, err := getState(hh)
					if err != nil {
						fail("state of an imported block cannot be read after a rejection", map[string]any{"block": b, "kind": kind, "err": err.Error(), "trace": fmt.Sprint(trace)})
						return
					}
					if before, ok := snap[hh]; ok && !sameKV(before, now) {
						fail("a rejected block changed the stored state of an imported block", map[string]any{"block": b, "kind": kind, "trace": fmt.Sprint(trace)})
						return
					}
				}
				// (c) a child of the rejected block: the block that would be valid on the head, re-parented onto the rejected block and
				// sealed again. A node that never saw the rejected block does not know that parent and refuses (checked on a
				// fresh node of its own at the first few occurrences per case); so must this node.
				if r.IntN(3) == 0 {
					if hx, herr := hash.ComputeBlockHeaderHash(bad.Header); herr == nil && hx != parent.hash {
						child := p.blk
						child.Header.Parent = hx
						resign(&child.Header, int(child.Header.AuthorIndex), p.tip.tau)
						var cerr error
						if pn, msg, st := vh.Guard(func() { _, cerr = svc.ImportBlock(child) }); pn {
							fail("import panicked on a child of a rejected block", map[string]any{"block": b, "kind": kind, "panic": msg, "stack": st})
							return
						}
						h.Inc("children_of_rejected_blocks")
						trace = append(trace, fmt.Sprintf("%d:child-of-rejected=%v", b, cerr == nil))
						if cerr == nil {
							// witness for the replay file: what a node that never saw the rejected block answers
							fresh := "accepted"
							if _, e := svc.SetState(w.genHdr, w.genKV.DeepCopy(), ancestry()); e == nil {
								for _, q := range chain[:b] {
									svc.ImportBlock(q.blk)
								}
								if _, e := svc.ImportBlock(child); e != nil {
									fresh = "rejected: " + e.Error()
								}
							}
							fail("a block whose parent is a rejected block was accepted (a node that never saw the rejected block does not know that parent)",
								map[string]any{"block": b, "rejected_kind": kind, "rejected_error": ierr.Error(), "fresh_node": fresh, "trace": fmt.Sprint(trace)})
							return
						}
					}
				}
				// (b) retry of the same rejected block: rejected again
				if r.Bool() {
					var ierr2 error
					if pn, msg, st := vh.Guard(func() { _, ierr2 = svc.ImportBlock(bad) }); pn {
						fail("import panicked on the retry of a rejected block", map[string]any{"block": b, "kind": kind, "panic": msg, "stack": st})
						return
					}
					h.Inc("retries_of_rejected_blocks")
					if ierr2 == nil {
						fail("the retry of a rejected block was accepted", map[string]any{"block": b, "kind": kind, "first_error": ierr.Error(), "trace": fmt.Sprint(trace)})
						return
					}
					// (not for the guarantee with two bad signatures: its signatures are checked by concurrent workers and either
					// worker's complaint - wrong core assignment, bad signature - may be reported)
					if ierr2.Error() != ierr.Error() && kind != "guarantee with bad signatures" {
						// the first answer is the one a node that never saw the block gives; another reason the second time means the
						// failed attempt left something behind in the state the retry ran on
						fail("the retry of a rejected block is rejected for another reason than the first time", map[string]any{"block": b, "kind": kind, "first_error": ierr.Error(), "second_error": ierr2.Error(), "trace": fmt.Sprint(trace)})
						return
					}
				}
			} else if kind == "valid sibling" {
				if ierr != nil {
					fail("a valid sibling block is rejected", map[string]any{"block": b, "err": ierr.Error(), "trace": fmt.Sprint(trace)})
					return
				}
				h.Inc("forks")
				// the fork grows by one more block before the main chain goes on (the node is then two blocks into a branch it has
				// to abandon); the branch is replayed on a fresh node afterwards
				sibTip.root = root
				br := branch{at: b, blocks: []types.Block{bad}, roots: []types.StateRoot{root}}
				if cslot := sibTip.tau + 1 + r.IntN(2); r.Bool() && (!withAncestry || cslot <= p.tip.tau) {
					child, _ := w.produce(r, sibTip, cslot, r.IntN(K+1))
					var croot types.StateRoot
					var cerr error
					if pn, msg, st := vh.Guard(func() { croot, cerr = svc.ImportBlock(child) }); pn {
						fail("import panicked on the child of a valid sibling", map[string]any{"block": b, "panic": msg, "stack": st})
						return
					}
					if cerr != nil {
						fail("a valid child of a valid sibling is rejected", map[string]any{"block": b, "err": cerr.Error(), "trace": fmt.Sprint(trace)})
						return
					}
					headSlot = cslot
					h.Inc("fork_branches_of_two_blocks")
					trace = append(trace, fmt.Sprintf("%d:child-of-sibling", b))
					br.blocks, br.roots = append(br.blocks, child), append(br.roots, croot)
				}
				branches = append(branches, br)
			}
		}
		// the valid block: must import with the control root
		var root types.StateRoot
		var ierr error
		if pn, msg, st := vh.Guard(func() { root, ierr = svc.ImportBlock(p.blk) }); pn {
			fail("import panicked on a valid block after hostile blocks", map[string]any{"block": b, "panic": msg, "stack": st, "trace": fmt.Sprint(trace)})
			return
		}
		if ierr != nil {
			fail("a valid block is rejected by a node that saw rejected blocks / forks before (the control node accepted it)", map[string]any{"block": b, "slot": p.tip.tau, "err": ierr.Error(), "trace": fmt.Sprint(trace)})
			return
		}
		if root != p.root {
			fail("a valid block imports with another state root than on the control node", map[string]any{"block": b, "slot": p.tip.tau, "trace": fmt.Sprint(trace)})
			return
		}
		headSlot = p.tip.tau
		imported = append(imported, p.tip.hash)
		if s1, err := getState(p.tip.hash); err == nil {
			snap[p.tip.hash] = s1
			if mr := m.MerklizationSerializedState(toKVs(s1)); mr != root {
				fail("GetState(head) does not merklize to the root ImportBlock returned", map[string]any{"block": b})
				return
			}
		} else {
			fail("state of the block just imported cannot be read", map[string]any{"block": b, "err": err.Error()})
			return
		}
		h.Inc("valid_blocks_on_the_node_under_test")
	}
	// ---- fork branches replayed on fresh nodes that saw neither the rejected blocks nor the other forks -------------------------------
	if len(branches) > 2 {
		branches = []branch{branches[0], branches[len(branches)-1]}
	}
	for _, br := range branches {
		if _, err := svc.SetState(w.genHdr, w.genKV.DeepCopy(), ancestry()); err != nil {
			fail("genesis rejected at a branch replay", nil)
			return
		}
		for _, q := range chain[:br.at] {
			if _, e := svc.ImportBlock(q.blk); e != nil {
				fail("a fresh node rejects the main chain at a branch replay", map[string]any{"err": e.Error()})
				return
			}
		}
		for k, blk := range br.blocks {
			root, e := svc.ImportBlock(blk)
			if e != nil || root != br.roots[k] {
				fail("a fork branch imports differently on a fresh node than on the node that saw rejected blocks and other forks",
					map[string]any{"fork_at_block": br.at, "branch_block": k, "fresh_node_error": fmt.Sprint(e), "same_root": root == br.roots[k]})
				return
			}
			h.Inc("fork_blocks_replayed_on_a_fresh_node")
		}
	}
	h.Distinct(fmt.Sprint(trace), ci)
	if ci < 2 {
		h.Sample(map[string]any{"chain_length": len(chain), "last_events": fmt.Sprint(trace)})
	}
}

func toKVs(mp map[types.StateKey]string) types.StateKeyVals {
	out := make(types.StateKeyVals, 0, len(mp))
	for k, v := range mp {
		out = append(out, types.StateKeyVal{Key: k, Value: types.ByteSequence(v)})
	}
	return out
}
