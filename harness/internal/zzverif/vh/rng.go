package vh

import (
	"hash/fnv"
	"math/rand/v2"
)

// R is a per-case deterministic PRNG with boundary-biased helpers.
type R struct{ *rand.Rand }

// Rng returns the PRNG of case i in a stratum; it depends only on (VERIF_SEED, stratum, i).
func (h *H) Rng(stratum string, i int) R {
	f := fnv.New64a()
	f.Write([]byte(stratum))
	return R{rand.New(rand.NewPCG(h.Seed*0x9E3779B97F4A7C15+uint64(i), f.Sum64()^uint64(i)*0xD1342543DE82EF95))}
}

func NewR(a, b uint64) R { return R{rand.New(rand.NewPCG(a, b))} }

func (r R) Bool() bool         { return r.Uint64()&1 == 1 }
func (r R) P(p float64) bool   { return r.Float64() < p }
func (r R) Int(n int) int      { return r.IntN(n) }
func (r R) Range(a, b int) int { return a + r.IntN(b-a+1) } // inclusive

func (r R) Bytes(n int) []byte {
	b := make([]byte, n)
	for i := range b {
		b[i] = byte(r.Uint32())
	}
	return b
}

var boundaryPool = func() []uint64 {
	v := []uint64{0, 1, 2, 3, 7, 8, 0xFF, ^uint64(0), ^uint64(0) - 1}
	for _, k := range []uint{7, 8, 12, 14, 15, 16, 21, 24, 28, 31, 32, 33, 35, 42, 49, 56, 62, 63} {
		p := uint64(1) << k
		v = append(v, p-1, p, p+1)
	}
	return v
}()

// U64 draws a 64-bit value: half from the boundary pool (optionally ±small delta), half uniform.
func (r R) U64() uint64 {
	switch r.IntN(8) {
	case 0, 1, 2:
		return boundaryPool[r.IntN(len(boundaryPool))]
	case 3:
		return boundaryPool[r.IntN(len(boundaryPool))] + uint64(r.IntN(17)) - 8
	case 4:
		return uint64(r.IntN(256))
	case 5:
		return uint64(r.Uint32())
	default:
		return r.Uint64()
	}
}

func (r R) U32() uint32 { return uint32(r.U64()) }

// Size draws a size from the boundary sizes or uniformly below max.
func (r R) Size(max int) int {
	pool := []int{0, 1, 2, 31, 32, 33, 63, 64, 65, 127, 128, 129, 4095, 4096, 4097, 65535, 65536, 65537}
	if r.Bool() {
		for k := 0; k < 8; k++ {
			s := pool[r.IntN(len(pool))]
			if s <= max {
				return s
			}
		}
	}
	if max <= 0 {
		return 0
	}
	return r.IntN(max + 1)
}

// Pick returns a random element.
func Pick[T any](r R, xs []T) T { return xs[r.IntN(len(xs))] }

// Shuffle returns a shuffled copy.
func Shuffled[T any](r R, xs []T) []T {
	out := append([]T(nil), xs...)
	r.Shuffle(len(out), func(i, j int) { out[i], out[j] = out[j], out[i] })
	return out
}
