// Package vh is the child-side protocol of /verif's runner (vcheck). It is injected
// into the repository module with `go test -overlay`; it is not part of the repository.
//
// A harness test opens a session with vh.Open(t,"Cxx"), draws per-case PRNGs with
// h.Rng(stratum,i), logs every case BEFORE executing it (h.Case), reports violations
// (h.Viol), counters (h.Count), distinct non-trivial fingerprints (h.Distinct), samples
// (h.Sample) and ends with h.Done(). Everything goes to the JSONL file named by
// VERIF_EVENTS; the runner aggregates, classifies against known_findings.json and
// writes evidence.
package vh

import (
	"bufio"
	"encoding/binary"
	"encoding/hex"
	"encoding/json"
	"fmt"
	"hash/fnv"
	"os"
	"runtime/debug"
	"sort"
	"strconv"
	"strings"
	"sync"
	"testing"
)

type H struct {
	ID     string
	Seed   uint64
	Tier   string // "quick" | "thorough"
	Shard  int
	Shards int
	// Only >= 0: replay mode, execute only case (OnlyStratum, Only).
	Only        int64
	OnlyStratum string
	// resume after a process death: skip every case up to and including (resumeS, resumeI)
	skipping bool
	resumeS  string
	resumeI  int64

	mu       sync.Mutex
	w        *bufio.Writer
	f        *os.File
	counts   map[string]int64
	distinct map[uint64]struct{}
	samples  int
	viols    int
	violCap  map[string]int
	t        testing.TB
}

func envInt(name string, def int64) int64 {
	v := os.Getenv(name)
	if v == "" {
		return def
	}
	n, err := strconv.ParseInt(v, 10, 64)
	if err != nil {
		return def
	}
	return n
}

// Enabled reports whether the binary is being run by vcheck (otherwise harness tests skip).
func Enabled(id string) bool { return os.Getenv("VERIF_CHECK") == id }

func Open(t testing.TB, id string) *H {
	if !Enabled(id) {
		t.Skip("verif harness: not selected")
	}
	h := &H{ID: id, t: t, counts: map[string]int64{}, distinct: map[uint64]struct{}{}, violCap: map[string]int{}}
	h.Seed = uint64(envInt("VERIF_SEED", 1))
	h.Tier = os.Getenv("VERIF_TIER")
	if h.Tier == "" {
		h.Tier = "quick"
	}
	h.Shard = int(envInt("VERIF_SHARD", 0))
	h.Shards = int(envInt("VERIF_SHARDS", 1))
	h.Only = envInt("VERIF_ONLY", -1)
	h.OnlyStratum = os.Getenv("VERIF_ONLY_STRATUM")
	if rs := os.Getenv("VERIF_RESUME"); rs != "" {
		if k := strings.LastIndex(rs, ":"); k > 0 {
			h.resumeS = rs[:k]
			h.resumeI, _ = strconv.ParseInt(rs[k+1:], 10, 64)
			h.skipping = true
		}
	}
	path := os.Getenv("VERIF_EVENTS")
	if path == "" {
		path = os.DevNull
	}
	f, err := os.OpenFile(path, os.O_CREATE|os.O_WRONLY|os.O_APPEND, 0o644)
	if err != nil {
		t.Fatalf("verif: open events: %v", err)
	}
	h.f = f
	h.w = bufio.NewWriterSize(f, 1<<16)
	h.emit(map[string]any{"k": "start", "id": id, "seed": h.Seed, "tier": h.Tier, "shard": h.Shard, "shards": h.Shards})
	h.flush()
	return h
}

func (h *H) Thorough() bool { return h.Tier == "thorough" }

// N picks the per-tier case count and divides it among shards.
func (h *H) N(quick, thorough int) int {
	n := quick
	if h.Thorough() {
		n = thorough
	}
	return n
}

// Mine reports whether case i of a stratum belongs to this shard (and, in replay mode, is the selected one).
func (h *H) Mine(stratum string, i int) bool {
	if h.Only >= 0 {
		return int64(i) == h.Only && (h.OnlyStratum == "" || h.OnlyStratum == stratum)
	}
	if i%h.Shards != h.Shard {
		return false
	}
	if h.skipping {
		if stratum == h.resumeS && int64(i) == h.resumeI {
			h.skipping = false
		}
		return false
	}
	return true
}

func (h *H) emit(m map[string]any) {
	b, err := json.Marshal(m)
	if err != nil {
		b, _ = json.Marshal(map[string]any{"k": "error", "msg": "marshal: " + err.Error()})
	}
	h.w.Write(b)
	h.w.WriteByte('\n')
}

func (h *H) flush() { h.w.Flush() }

// Case logs the case about to be executed and flushes, so that a process death
// leaves the witness on disk. cls is the input-class label used to match fatal
// crashes against known findings ("" = clean stratum).
func (h *H) Case(stratum string, i int, cls string, input any) {
	h.mu.Lock()
	defer h.mu.Unlock()
	h.counts["cases"]++
	h.emit(map[string]any{"k": "case", "s": stratum, "i": i, "cls": cls, "in": input})
	h.flush()
}

// CaseLight logs only the index (for checks whose cases are cheap and cannot kill the process).
func (h *H) CaseLight(stratum string, i int) {
	h.mu.Lock()
	defer h.mu.Unlock()
	h.counts["cases"]++
}

// Viol reports a candidate violation. finding is the id of the known-finding class whose
// input_class ∧ divergence predicates the harness evaluated to true on this case ("" = none).
func (h *H) Viol(stratum string, i int, finding, class string, detail any) {
	h.mu.Lock()
	defer h.mu.Unlock()
	h.viols++
	key := finding + "|" + class
	h.violCap[key]++
	h.counts["viol:"+key]++
	if h.violCap[key] > 5 { // keep logs bounded: 5 witnesses per class per shard
		return
	}
	h.emit(map[string]any{"k": "viol", "s": stratum, "i": i, "finding": finding, "class": class, "detail": detail,
		"seed": h.Seed, "tier": h.Tier, "shard": h.Shard, "shards": h.Shards})
	h.flush()
}

func (h *H) Count(name string, n int64) {
	h.mu.Lock()
	h.counts[name] += n
	h.mu.Unlock()
}

func (h *H) Inc(name string) { h.Count(name, 1) }

// Distinct records the fingerprint of a non-trivial case.
func (h *H) Distinct(parts ...any) {
	f := fnv.New64a()
	for _, p := range parts {
		switch v := p.(type) {
		case []byte:
			f.Write(v)
		case string:
			f.Write([]byte(v))
		default:
			fmt.Fprintf(f, "%v", v)
		}
		f.Write([]byte{0})
	}
	s := f.Sum64()
	h.mu.Lock()
	h.distinct[s] = struct{}{}
	h.mu.Unlock()
}

func (h *H) Sample(v any) {
	h.mu.Lock()
	defer h.mu.Unlock()
	if h.samples >= 3 {
		return
	}
	h.samples++
	h.emit(map[string]any{"k": "sample", "v": v})
}

// Note emits a free-form observation (string keyed) into evidence.
func (h *H) Note(key string, v any) {
	h.mu.Lock()
	defer h.mu.Unlock()
	h.emit(map[string]any{"k": "note", "key": key, "v": v})
}

func (h *H) Done() {
	h.mu.Lock()
	defer h.mu.Unlock()
	keys := make([]string, 0, len(h.counts))
	for k := range h.counts {
		keys = append(keys, k)
	}
	sort.Strings(keys)
	c := map[string]int64{}
	for _, k := range keys {
		c[k] = h.counts[k]
	}
	h.emit(map[string]any{"k": "counts", "c": c})
	// fingerprints: hex of concatenated 8-byte values, chunked
	buf := make([]byte, 0, 8*4096)
	n := 0
	for fp := range h.distinct {
		buf = binary.LittleEndian.AppendUint64(buf, fp)
		n++
		if n == 4096 {
			h.emit(map[string]any{"k": "fp", "x": hex.EncodeToString(buf)})
			buf = buf[:0]
			n = 0
		}
	}
	if n > 0 {
		h.emit(map[string]any{"k": "fp", "x": hex.EncodeToString(buf)})
	}
	h.emit(map[string]any{"k": "done", "viols": h.viols})
	h.flush()
	h.f.Close()
}

// Guard runs f and converts a Go panic into (panicked=true, message, top frames).
func Guard(f func()) (panicked bool, msg string, stack string) {
	defer func() {
		if r := recover(); r != nil {
			panicked = true
			msg = fmt.Sprint(r)
			st := string(debug.Stack())
			stack = TrimStack(st)
		}
	}()
	f()
	return
}

// TrimStack keeps the repository frames of a stack dump (function names only).
func TrimStack(st string) string {
	var out []string
	for _, ln := range strings.Split(st, "\n") {
		if strings.HasPrefix(ln, "github.com/New-JAMneration/JAM-Protocol/") {
			ln = strings.TrimPrefix(ln, "github.com/New-JAMneration/JAM-Protocol/")
			if i := strings.LastIndex(ln, "("); i > 0 {
				ln = ln[:i]
			}
			if strings.Contains(ln, "zzverif") || strings.Contains(ln, "vh.Guard") {
				continue
			}
			out = append(out, ln)
			if len(out) >= 6 {
				break
			}
		}
	}
	return strings.Join(out, " < ")
}

func Hex(b []byte) string { return hex.EncodeToString(b) }
