// Package c27 drives the three database providers with the same operation sequences and compares
// every observable result with an ordered-map model.
package c27

import (
	"bytes"
	"fmt"
	"sort"
	"strings"
	"testing"

	"github.com/New-JAMneration/JAM-Protocol/internal/database"
	"github.com/New-JAMneration/JAM-Protocol/internal/database/provider/memory"
	pebbledb "github.com/New-JAMneration/JAM-Protocol/internal/database/provider/pebble"
	redisdb "github.com/New-JAMneration/JAM-Protocol/internal/database/provider/redis"
	"github.com/New-JAMneration/JAM-Protocol/internal/zzverif/vh"
	"github.com/alicebob/miniredis/v2"
)

// ---- model: an ordered map ---------------------------------------------------------------------

type model map[string][]byte

type mop struct {
	del  bool
	k, v string
}

func (m model) iterate(prefix, start string) (ks, vs []string) {
	lo := prefix + start
	for k := range m {
		if strings.HasPrefix(k, prefix) && k >= lo {
			ks = append(ks, k)
		}
	}
	sort.Strings(ks)
	for _, k := range ks {
		vs = append(vs, string(m[k]))
	}
	return
}

// ---- generators --------------------------------------------------------------------------------

// few symbols so that keys collide, share prefixes and contain the glob metacharacters of SCAN MATCH
var alphabet = []byte{'a', 'b', 'p', '_', '*', '?', '[', ']', '\\', '^', '-', 0x00, 0x01, 0x7F, 0x80, 0xFE, 0xFF}

// nASCII is the number of leading alphabet symbols below 0x80.
const nASCII = 14

// genStr draws a string; mode 0: 3 symbols, 1: ASCII symbols only, 2: all symbols.
func genStr(r vh.R, minLen, maxLen int, mode int) []byte {
	n := minLen + r.IntN(maxLen-minLen+1)
	b := make([]byte, n)
	for i := range b {
		switch mode {
		case 0:
			b[i] = alphabet[r.IntN(3)]
		case 1:
			b[i] = alphabet[r.IntN(nASCII)]
		default:
			b[i] = alphabet[r.IntN(len(alphabet))]
		}
	}
	return b
}

func genVal(r vh.R) []byte {
	switch r.IntN(6) {
	case 0:
		return []byte{}
	case 1:
		return r.Bytes(1)
	default:
		return r.Bytes(1 + r.IntN(40))
	}
}

func scramble(b []byte) {
	for i := range b {
		b[i] ^= 0xA5
	}
}

type provider struct {
	name string
	open func() (database.Database, error)
}

func TestVerifC27(t *testing.T) {
	h := vh.Open(t, "C27")
	defer h.Done()
	mr, err := miniredis.Run()
	if err != nil {
		t.Fatalf("miniredis: %v", err)
	}
	defer mr.Close()
	provs := []provider{
		{"memory", func() (database.Database, error) { return memory.NewDatabase(), nil }},
		{"pebble", func() (database.Database, error) { return pebbledb.NewTestDatabase() }},
		{"redis", func() (database.Database, error) { mr.FlushAll(); return redisdb.NewDatabase(mr.Addr(), "", 0), nil }},
	}
	n := h.N(6000, 120000)
	for ci := 0; ci < n; ci++ {
		if !h.Mine("seq", ci) {
			continue
		}
		h.CaseLight("seq", ci)
		for pi, pv := range provs {
			// the same PRNG stream for every provider: identical operation sequences
			r := h.Rng("seq", ci)
			mode := ci % 3
			if mode == 2 && pv.name == "redis" {
				// miniredis compiles the SCAN pattern into a Go regexp and panics on patterns that are not valid UTF-8 (a real
				// server is binary safe): a limitation of the stand-in, so keys with bytes >= 0x80 are not driven through it.
				h.Inc("redis_sequences_skipped_non_utf8_keys")
				continue
			}
			db, err := pv.open()
			if err != nil {
				h.Viol("seq", ci, "", pv.name+": open failed", map[string]any{"err": fmt.Sprint(err)})
				continue
			}
			trace, sig := runSequence(h, r, ci, pv.name, db, mode)
			db.Close()
			if pi == 0 {
				h.Distinct("seq", sig)
				if ci < 2 {
					h.Sample(map[string]any{"provider": pv.name, "ops": trace})
				}
			}
		}
	}
}

type openBatch struct {
	b   database.Batch
	ops []mop
}

func runSequence(h *vh.H, r vh.R, ci int, pname string, db database.Database, small int) (trace []string, sig []byte) {
	m := model{}
	var batches []*openBatch
	steps := 5 + r.IntN(60)
	failed := false
	viol := func(class string, d map[string]any) {
		failed = true
		d["provider"] = pname
		d["recent_ops"] = trace[max(0, len(trace)-12):]
		h.Viol("seq", ci, "", pname+": "+class, d)
	}
	note := func(format string, a ...any) {
		trace = append(trace, fmt.Sprintf(format, a...))
	}
	key := func() []byte {
		if len(m) > 0 && r.IntN(2) == 0 { // an existing key
			ks, _ := m.iterate("", "")
			return []byte(ks[r.IntN(len(ks))])
		}
		return genStr(r, 1, 4, small)
	}
	for step := 0; step < steps; step++ {
		var pn bool
		var pmsg, pst string
		op := r.IntN(20)
		switch {
		case op < 4: // Put, then scramble the caller's slices
			k, v := key(), genVal(r)
			ks, vs := string(k), string(v)
			note("put(%q,%d bytes)", ks, len(v))
			pn, pmsg, pst = vh.Guard(func() {
				if err := db.Put(k, v); err != nil {
					viol("put returned an error", map[string]any{"err": fmt.Sprint(err), "key": ks})
				}
			})
			scramble(k)
			scramble(v)
			m[ks] = []byte(vs)
			h.Inc("puts")
			h.Inc("ops_" + pname)
		case op < 6: // Delete
			k := key()
			ks := string(k)
			note("delete(%q)", ks)
			pn, pmsg, pst = vh.Guard(func() {
				if err := db.Delete(k); err != nil {
					viol("delete returned an error", map[string]any{"err": fmt.Sprint(err), "key": ks})
				}
			})
			scramble(k)
			delete(m, ks)
			h.Inc("deletes")
		case op < 10: // Get / Has; the returned slice is scrambled and the key is read again
			k := key()
			ks := string(k)
			note("get(%q)", ks)
			pn, pmsg, pst = vh.Guard(func() {
				want, wantOK := m[ks]
				for round := 0; round < 2; round++ {
					got, ok, err := db.Get(k)
					has, herr := db.Has(k)
					if err != nil || herr != nil {
						viol("get/has returned an error", map[string]any{"err": fmt.Sprint(err, herr), "key": ks})
						return
					}
					if ok != wantOK || has != wantOK || (ok && !bytes.Equal(got, want)) {
						cls := "read does not see the latest committed write"
						if round == 1 {
							cls = "mutating a returned value changed the stored value"
						}
						viol(cls, map[string]any{"key": ks, "got_present": ok, "has": has, "want_present": wantOK, "got": vh.Hex(got), "want": vh.Hex(want)})
						return
					}
					scramble(got)
				}
			})
			h.Inc("gets")
		case op < 12: // open a batch
			if len(batches) < 3 {
				pn, pmsg, pst = vh.Guard(func() { batches = append(batches, &openBatch{b: db.NewBatch()}) })
				note("batch%d=new", len(batches)-1)
			}
		case op < 16: // write into an open batch (buffered: must stay invisible), then scramble the arguments
			if len(batches) == 0 {
				continue
			}
			bi := r.IntN(len(batches))
			ob := batches[bi]
			k := key()
			ks := string(k)
			if r.IntN(3) == 0 {
				note("batch%d.delete(%q)", bi, ks)
				pn, pmsg, pst = vh.Guard(func() {
					if err := ob.b.Delete(k); err != nil {
						viol("batch delete returned an error", map[string]any{"err": fmt.Sprint(err)})
					}
				})
				ob.ops = append(ob.ops, mop{del: true, k: ks})
			} else {
				v := genVal(r)
				vs := string(v)
				note("batch%d.put(%q,%d bytes)", bi, ks, len(v))
				pn, pmsg, pst = vh.Guard(func() {
					if err := ob.b.Put(k, v); err != nil {
						viol("batch put returned an error", map[string]any{"err": fmt.Sprint(err)})
					}
				})
				scramble(v)
				ob.ops = append(ob.ops, mop{k: ks, v: vs})
			}
			scramble(k)
			h.Inc("batch_writes")
		case op < 18: // commit or discard a batch
			if len(batches) == 0 {
				continue
			}
			bi := r.IntN(len(batches))
			ob := batches[bi]
			batches = append(batches[:bi], batches[bi+1:]...)
			if r.IntN(3) > 0 {
				note("batch.commit(%d ops)", len(ob.ops))
				pn, pmsg, pst = vh.Guard(func() {
					if err := ob.b.Commit(); err != nil && len(ob.ops) > 0 {
						viol("batch commit returned an error", map[string]any{"err": fmt.Sprint(err), "ops": len(ob.ops)})
					}
					ob.b.Close()
				})
				for _, o := range ob.ops {
					if o.del {
						delete(m, o.k)
					} else {
						m[o.k] = []byte(o.v)
					}
				}
				h.Inc("batches_committed")
				if len(ob.ops) > 1 {
					h.Inc("batches_committed_with_several_ops")
				}
			} else {
				note("batch.discard(%d ops)", len(ob.ops))
				pn, pmsg, pst = vh.Guard(func() { ob.b.Close() })
				h.Inc("batches_discarded")
			}
		default: // iterate
			var prefix, start []byte
			if len(m) > 0 && r.IntN(3) > 0 { // derive from an existing key so that the range is populated
				ks, _ := m.iterate("", "")
				k := ks[r.IntN(len(ks))]
				cut := r.IntN(len(k) + 1)
				prefix = []byte(k[:cut])
				rest := k[cut:]
				start = []byte(rest[:r.IntN(len(rest)+1)])
				if len(start) > 0 && r.IntN(3) == 0 {
					start[len(start)-1] += byte(r.IntN(3)) - 1 // just before / after an existing key
					if small < 2 && start[len(start)-1] >= 0x80 {
						start[len(start)-1] = 0x7F
					}
				}
			} else {
				prefix, start = genStr(r, 0, 2, small), genStr(r, 0, 2, small)
			}
			if small == 2 && len(m) > 0 && r.IntN(6) == 0 {
				// a prefix that ends in 0xFF bytes and whose successor (the exclusive upper end of its range: last non-0xFF byte
				// plus one, truncated there) is an existing key: that key is just outside the range
				ks, _ := m.iterate("", "")
				if k := ks[r.IntN(len(ks))]; len(k) > 0 && k[len(k)-1] > 0 {
					prefix = append([]byte(k[:len(k)-1]), k[len(k)-1]-1)
					prefix = append(prefix, bytes.Repeat([]byte{0xFF}, 1+r.IntN(2))...)
					start = nil
					h.Inc("iterations_with_a_prefix_ending_in_FF_below_an_existing_key")
				}
			}
			ps, ss := string(prefix), string(start)
			note("iterate(%q,%q)", ps, ss)
			wk, wv := m.iterate(ps, ss)
			pn, pmsg, pst = vh.Guard(func() {
				it, err := db.NewIterator(prefix, start)
				if err != nil {
					viol("NewIterator returned an error", map[string]any{"err": fmt.Sprint(err), "prefix": ps, "start": ss})
					return
				}
				scramble(prefix)
				scramble(start)
				var gk, gv []string
				for it.Next() {
					gk = append(gk, string(it.Key()))
					gv = append(gv, string(it.Value()))
					if len(gk) > len(m)+5 {
						break
					}
				}
				ierr := it.Error()
				it.Close()
				if ierr != nil {
					viol("iterator reported an error", map[string]any{"err": fmt.Sprint(ierr)})
					return
				}
				if strings.Join(gk, "\x00|") != strings.Join(wk, "\x00|") || len(gk) != len(wk) {
					cls := "iteration yields other keys than the model"
					sorted := append([]string(nil), gk...)
					sort.Strings(sorted)
					if strings.Join(sorted, "\x00|") == strings.Join(wk, "\x00|") && len(gk) == len(wk) {
						cls = "iteration is not in ascending byte order"
					}
					viol(cls, map[string]any{"prefix": ps, "start": ss, "got": fmt.Sprintf("%q", gk), "want": fmt.Sprintf("%q", wk)})
					return
				}
				for i := range gv {
					if gv[i] != wv[i] {
						viol("iteration yields another value than the latest committed one", map[string]any{"key": gk[i], "got": vh.Hex([]byte(gv[i])), "want": vh.Hex([]byte(wv[i]))})
						return
					}
				}
				if len(wk) > 0 {
					h.Inc("iterations_nonempty")
				}
				if len(wk) > 0 && len(wk) < len(m) {
					h.Inc("iterations_proper_subset")
				}
				if len(ss) > 0 && len(wk) > 0 {
					h.Inc("iterations_nonempty_with_start")
				}
			})
			h.Inc("iterations_" + pname)
		}
		if pn {
			viol("go panic", map[string]any{"panic": pmsg, "stack": pst})
		}
		if failed { // the model can no longer follow this store
			return
		}
		// After every operation the whole visible content must equal the model (uncommitted batches invisible).
		if step%4 == 3 || step == steps-1 {
			bad := false
			vh.Guard(func() {
				for k, want := range m {
					got, ok, err := db.Get([]byte(k))
					if err != nil || !ok || !bytes.Equal(got, want) {
						viol("content differs from the model: key lost or value changed", map[string]any{"key": k, "present": ok, "got": vh.Hex(got), "want": vh.Hex(want), "err": fmt.Sprint(err)})
						bad = true
						return
					}
				}
				it, err := db.NewIterator(nil, nil)
				if err != nil {
					return
				}
				cnt := 0
				for it.Next() {
					if _, ok := m[string(it.Key())]; !ok {
						viol("content differs from the model: a key that was never committed (or was deleted) is visible", map[string]any{"key": string(it.Key())})
						bad = true
						break
					}
					cnt++
				}
				it.Close()
				if !bad && cnt != len(m) {
					viol("full iteration does not yield every key", map[string]any{"got": cnt, "want": len(m)})
					bad = true
				}
			})
			if bad {
				return
			}
			h.Inc("full_content_comparisons")
		}
	}
	for _, ob := range batches {
		vh.Guard(func() { ob.b.Close() })
	}
	ks, vs := m.iterate("", "")
	sig = []byte(strings.Join(ks, "|") + "#" + strings.Join(vs, "|") + "#" + strings.Join(trace, ";"))
	return
}
