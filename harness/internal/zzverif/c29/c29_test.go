package c29

import (
	"bytes"
	"testing"

	"github.com/New-JAMneration/JAM-Protocol/internal/networking/validator"
	"github.com/New-JAMneration/JAM-Protocol/internal/types"
	"github.com/New-JAMneration/JAM-Protocol/internal/zzverif/vh"
)

// integer floor(sqrt(n)) without floating point
func isqrt(n int) int {
	w := 0
	for (w+1)*(w+1) <= n {
		w++
	}
	return w
}

func modelNeighbor(V, a, b int) bool {
	if V == 0 || a == b || a < 0 || b < 0 || a >= V || b >= V {
		return false
	}
	w := max(1, isqrt(V))
	return a/w == b/w || a%w == b%w
}

func mkSet(tag byte, n int) types.ValidatorsData {
	vs := make(types.ValidatorsData, n)
	for i := range vs {
		vs[i].Ed25519[0] = tag
		vs[i].Ed25519[1] = byte(i)
		vs[i].Ed25519[2] = byte(i >> 8)
		vs[i].Ed25519[31] = byte(i * 37)
	}
	return vs
}

func TestVerifC29(t *testing.T) {
	h := vh.Open(t, "C29")
	defer h.Done()

	for V := 0; V <= 1100; V++ {
		if !h.Mine("grid", V) {
			continue
		}
		h.CaseLight("grid", V)
		r := h.Rng("grid", V)
		g := &validator.GridMapper{Previous: mkSet(1, V), Current: mkSet(2, V), Next: mkSet(3, V)}
		if V%5 == 1 { // epochs with a different validator count
			g.Previous = mkSet(1, max(0, V-3))
			g.Next = mkSet(3, V+2)
		}
		var pairs [][2]int
		if V <= 40 || (h.Thorough() && V <= 120) {
			for a := -1; a <= V; a++ {
				for b := -1; b <= V; b++ {
					pairs = append(pairs, [2]int{a, b})
				}
			}
		} else {
			w := max(1, isqrt(V))
			for k := 0; k < 200; k++ {
				a, b := r.IntN(V), r.IntN(V)
				switch k % 5 {
				case 0: // last (partial) row
					a = V - 1 - r.IntN(min(V, w))
				case 1: // same column
					b = (a%w + w*r.IntN((V+w-1)/w)) % V
				case 2: // same row
					b = min(V-1, a/w*w+r.IntN(w))
				case 3:
					b = a
				}
				pairs = append(pairs, [2]int{a, b})
			}
			pairs = append(pairs, [2]int{0, V - 1}, [2]int{V - 1, 0}, [2]int{V - 1, V - 1}, [2]int{V, 0}, [2]int{0, V}, [2]int{-1, 0})
		}
		for _, p := range pairs {
			a, b := p[0], p[1]
			got := g.IsNeighborInEpoch(a, b)
			if got != modelNeighbor(V, a, b) {
				h.Viol("grid", V, "", "IsNeighborInEpoch-differs", map[string]any{"V": V, "a": a, "b": b, "got": got})
			}
			if got != g.IsNeighborInEpoch(b, a) {
				h.Viol("grid", V, "", "neighbour-relation-asymmetric", map[string]any{"V": V, "a": a, "b": b})
			}
			if a == b && got {
				h.Viol("grid", V, "", "neighbour-relation-reflexive", map[string]any{"V": V, "a": a})
			}
			h.Inc("pairs")
		}
		// NeighborIndicesInEpoch / AllNeighborValidators / manager.IsNeighbor for a few (all when small) indices
		var idxs []int
		if V <= 40 {
			for a := -1; a <= V; a++ {
				idxs = append(idxs, a)
			}
		} else {
			idxs = []int{0, V - 1, r.IntN(V), r.IntN(V), V, -1}
		}
		for _, a := range idxs {
			var want []int
			for b := 0; b < V; b++ {
				if modelNeighbor(V, a, b) {
					want = append(want, b)
				}
			}
			got := g.NeighborIndicesInEpoch(a)
			same := len(got) == len(want)
			for i := 0; same && i < len(want); i++ {
				same = got[i] == want[i]
			}
			if !same {
				h.Viol("grid", V, "", "NeighborIndicesInEpoch-differs", map[string]any{"V": V, "a": a, "got_len": len(got), "want_len": len(want)})
			}
			// AllNeighborValidators = current neighbours + same index in previous and next epoch
			all := g.AllNeighborValidators(a)
			var wantKeys []types.Ed25519Public
			for _, b := range want {
				wantKeys = append(wantKeys, g.Current[b].Ed25519)
			}
			if a >= 0 && a < len(g.Previous) {
				wantKeys = append(wantKeys, g.Previous[a].Ed25519)
			}
			if a >= 0 && a < len(g.Next) {
				wantKeys = append(wantKeys, g.Next[a].Ed25519)
			}
			okAll := len(all) == len(wantKeys)
			for i := 0; okAll && i < len(all); i++ {
				okAll = all[i].Ed25519 == wantKeys[i]
			}
			if !okAll {
				h.Viol("grid", V, "", "AllNeighborValidators-differs", map[string]any{"V": V, "a": a, "got_len": len(all), "want_len": len(wantKeys)})
			}
			if a >= 0 && a < V {
				vm := &validator.ValidatorManager{Grid: g, SelfIndex: a, SelfKey: g.Current[a].Ed25519}
				for _, b := range []int{0, V - 1, r.IntN(V)} {
					if vm.IsNeighbor(g.Current[b].Ed25519) != modelNeighbor(V, a, b) {
						h.Viol("grid", V, "", "manager.IsNeighbor-differs", map[string]any{"V": V, "a": a, "b": b})
					}
				}
				if a < len(g.Previous) && !vm.IsNeighbor(g.Previous[a].Ed25519) {
					h.Viol("grid", V, "", "same-index-previous-epoch-not-neighbour", map[string]any{"V": V, "a": a})
				}
				if a < len(g.Next) && !vm.IsNeighbor(g.Next[a].Ed25519) {
					h.Viol("grid", V, "", "same-index-next-epoch-not-neighbour", map[string]any{"V": V, "a": a})
				}
				if a+1 < len(g.Next) && vm.IsNeighbor(g.Next[a+1].Ed25519) {
					h.Viol("grid", V, "", "other-index-next-epoch-is-neighbour", map[string]any{"V": V, "a": a})
				}
			}
			h.Inc("index_lists")
		}
		if validator.ComputeWidth(V) != max(1, isqrt(V)) {
			h.Viol("grid", V, "", "width-not-floor-sqrt", map[string]any{"V": V, "got": validator.ComputeWidth(V)})
		}
		if V >= 2 {
			h.Distinct("V", V)
		}
	}

	// preferred initiator
	n := h.N(100000, 2000000)
	for i := 0; i < n; i++ {
		if !h.Mine("init", i) {
			continue
		}
		h.CaseLight("init", i)
		r := h.Rng("init", i)
		var a, b types.Ed25519Public
		copy(a[:], r.Bytes(32))
		copy(b[:], r.Bytes(32))
		switch i % 8 {
		case 1:
			b = a
		case 2:
			b = a
			b[31] ^= 0x80
		case 3:
			b = a
			b[0] ^= byte(1 << uint(r.IntN(8)))
		case 4:
			b = a
			b[r.IntN(32)] ^= byte(1 << uint(r.IntN(8)))
		case 5:
			b = a
			b[31] ^= 0x80
			b[r.IntN(31)]++
		case 6:
			a[31], b[31] = 127, 128
		}
		pab, pba := validator.PreferredInitiator(a, b), validator.PreferredInitiator(b, a)
		if pab != pba {
			h.Viol("init", i, "", "initiator-not-symmetric", map[string]any{"a": vh.Hex(a[:]), "b": vh.Hex(b[:])})
		}
		if pab != a && pab != b {
			h.Viol("init", i, "", "initiator-not-one-of-the-pair", map[string]any{"a": vh.Hex(a[:]), "b": vh.Hex(b[:])})
		}
		// definition: a when (a31>127) xor (b31>127) xor (a<b)
		want := b
		if ((a[31] > 127) != (b[31] > 127)) != (bytes.Compare(a[:], b[:]) < 0) {
			want = a
		}
		if pab != want {
			h.Viol("init", i, "", "initiator-differs-from-definition", map[string]any{"a": vh.Hex(a[:]), "b": vh.Hex(b[:])})
		}
		h.Inc("key_pairs")
		h.Distinct(a[:], b[:])
		if i < 2 {
			h.Sample(map[string]any{"a": vh.Hex(a[:]), "b": vh.Hex(b[:]), "initiator": vh.Hex(pab[:])})
		}
	}
}
