// C32 — work digest and package specification fields (DESIGN §2 C32).
//
//	digest  C(item, result, gas) = (service, code hash, H(payload), accumulate gas, result,
//	        load = (gas used, |imports|, |extrinsics|, Σ extrinsic lengths, export count))        — GP 14.8
//	spec    A(hash, bundle, exports) = (hash, |bundle|, erasure root, M(exports), |exports|)           — GP 14.16
//
// The erasure root u = M_B([H(b_c) ‖ M_B(s_c)]) over the chunks b_c of the padded bundle and the chunks s_c of the exported segments
// followed by their paged proofs (GP 14.10, 14.16) is compared with a model that shares only the Reed-Solomon encoder with the code
// (pkg/erasure_coding over the stand-in crate: the chunk bytes are that library's, C30's business); the paged proofs, the transposition
// and both Merkle functions are the model's own.
package c32

import (
	"bytes"
	"fmt"
	"testing"

	"github.com/New-JAMneration/JAM-Protocol/PVM"
	"github.com/New-JAMneration/JAM-Protocol/internal/types"
	"github.com/New-JAMneration/JAM-Protocol/internal/work_package"
	"github.com/New-JAMneration/JAM-Protocol/internal/zzverif/refmerkle"
	"github.com/New-JAMneration/JAM-Protocol/internal/zzverif/vh"
	erasurecoding "github.com/New-JAMneration/JAM-Protocol/pkg/erasure_coding"
)

// modelPagedProofs: P(s) = [P_n(E(↕J_6(s,i), ↕L_6(s,i))) | i < ⌈|s|/64⌉] (GP 14.10), J_6 / L_6 over the constant-depth tree (E.5, E.6).
func modelPagedProofs(exports [][]byte) [][]byte {
	n := len(exports)
	sz, lg := 1, 0
	for sz < n {
		sz, lg = sz*2, lg+1
	}
	cm := make([][]byte, sz)
	for i := range cm {
		cm[i] = make([]byte, 32)
		if i < n {
			x := refmerkle.Blake([]byte("leaf"), exports[i])
			cm[i] = x[:]
		}
	}
	var pages [][]byte
	for i := 0; i < (n+63)/64; i++ {
		var sib [][]byte
		lo, hi, idx := 0, sz, 64*i
		for hi-lo > 1 { // siblings on the way from the root down to leaf 64 i
			mid := (lo + hi) / 2
			if idx < mid {
				sib = append(sib, refmerkle.N(cm[mid:hi], refmerkle.Blake))
				hi = mid
			} else {
				sib = append(sib, refmerkle.N(cm[lo:mid], refmerkle.Blake))
				lo = mid
			}
		}
		j := sib[:max(0, lg-6)]
		l := cm[64*i : min(64*i+64, n)]
		page := make([]byte, 0, types.SegmentSize)
		page = append(page, byte(len(j)))
		for _, x := range j {
			page = append(page, x...)
		}
		page = append(page, byte(len(l)))
		for _, x := range l {
			page = append(page, x...)
		}
		pages = append(pages, append(page, make([]byte, types.SegmentSize-len(page))...))
	}
	return pages
}

func modelErasureRoot(bundle []byte, exports [][]byte) (out [32]byte, err error) {
	padded := append([]byte(nil), bundle...)
	for len(padded)%types.ECBasicSize != 0 {
		padded = append(padded, 0)
	}
	parity := types.TotalShards - types.DataShards
	bsh, err := erasurecoding.EncodeDataShards(padded, types.DataShards, parity)
	if err != nil {
		return out, err
	}
	per := make([][][]byte, types.TotalShards)
	for _, seg := range append(append([][]byte(nil), exports...), modelPagedProofs(exports)...) {
		sh, err := erasurecoding.EncodeDataShards(append([]byte(nil), seg...), types.DataShards, parity)
		if err != nil {
			return out, err
		}
		for c := range per {
			per[c] = append(per[c], sh[c])
		}
	}
	merged := make([][]byte, types.TotalShards)
	for c := range merged {
		hb := refmerkle.Blake(bsh[c])
		hs := refmerkle.MB(per[c], refmerkle.Blake)
		merged[c] = append(append([]byte(nil), hb[:]...), hs[:]...)
	}
	return refmerkle.MB(merged, refmerkle.Blake), nil
}

func TestVerifC32(t *testing.T) {
	h := vh.Open(t, "C32")
	defer h.Done()
	types.SetTinyMode()

	n := h.N(20000, 400000)
	for ci := 0; ci < n; ci++ {
		if !h.Mine("digest", ci) {
			continue
		}
		h.CaseLight("digest", ci)
		r := h.Rng("digest", ci)
		var it types.WorkItem
		it.Service = types.ServiceID(r.U32())
		copy(it.CodeHash[:], r.Bytes(32))
		it.RefineGasLimit = types.Gas(r.U64() >> 2)
		it.AccumulateGasLimit = types.Gas(r.U64() >> 2)
		it.ExportCount = types.U16([]int{0, 1, 2, 63, 64, 255, 256, 3072, 65535}[r.IntN(9)])
		if r.Bool() {
			it.ExportCount = types.U16(r.IntN(3073))
		}
		it.Payload = r.Bytes([]int{0, 1, 32, 33, 500}[r.IntN(5)])
		ni := r.IntN(17)
		for i := 0; i < ni; i++ {
			var s types.ImportSpec
			copy(s.TreeRoot[:], r.Bytes(32))
			s.Index = types.U16(r.IntN(3072))
			it.ImportSegments = append(it.ImportSegments, s)
		}
		nx := r.IntN(17)
		var zsum uint64
		for i := 0; i < nx; i++ {
			var s types.ExtrinsicSpec
			copy(s.Hash[:], r.Bytes(32))
			s.Len = types.U32([]int{0, 1, 255, 256, 65535, 65536, 65537, 1 << 20}[r.IntN(8)])
			if r.Bool() {
				s.Len = types.U32(r.IntN(1 << 20))
			}
			zsum += uint64(s.Len)
			it.Extrinsic = append(it.Extrinsic, s)
		}
		var res types.WorkExecResult
		switch k := r.IntN(7); k {
		case 0, 1:
			res = types.WorkExecResult{Type: types.WorkExecResultOk, Data: r.Bytes(r.IntN(60))}
		default:
			res = types.WorkExecResult{Type: []types.WorkExecResultType{types.WorkExecResultOutOfGas, types.WorkExecResultPanic, types.WorkExecResultBadExports,
				types.WorkExecResultReportOversize, types.WorkExecResultBadCode, types.WorkExecResultCodeOversize}[r.IntN(6)]}
		}
		gas := types.Gas(r.U64() >> 2)
		var got types.WorkResult
		if pn, msg, st := vh.Guard(func() { got = work_package.C(it, res, gas) }); pn {
			h.Viol("digest", ci, "", "digest computation panicked", map[string]any{"panic": msg, "stack": st})
			continue
		}
		ph := refmerkle.Blake(it.Payload)
		d := map[string]any{"imports": ni, "extrinsics": nx, "extrinsic_size_sum": zsum, "export_count": it.ExportCount, "gas": gas,
			"load": fmt.Sprintf("%+v", got.RefineLoad)}
		switch {
		case got.ServiceID != it.Service || got.CodeHash != it.CodeHash || got.AccumulateGas != it.AccumulateGasLimit || !bytes.Equal(got.PayloadHash[:], ph[:]):
			h.Viol("digest", ci, "", "digest: service, code hash, payload hash or accumulate gas differ from the work item", d)
		case got.Result.Type != res.Type || !bytes.Equal(got.Result.Data, res.Data):
			h.Viol("digest", ci, "", "digest: refinement result not carried over", d)
		case got.RefineLoad.GasUsed != gas:
			h.Viol("digest", ci, "", "refine load: gas used differs", d)
		case uint64(got.RefineLoad.Imports) != uint64(ni):
			h.Viol("digest", ci, "", "refine load: import count differs from the number of import specs", d)
		case uint64(got.RefineLoad.ExtrinsicCount) != uint64(nx):
			h.Viol("digest", ci, "", "refine load: extrinsic count differs from the number of extrinsic specs", d)
		case uint64(got.RefineLoad.ExtrinsicSize) != zsum:
			h.Viol("digest", ci, "", "refine load: extrinsic size differs from the sum of the extrinsic lengths", d)
		case got.RefineLoad.Exports != it.ExportCount:
			h.Viol("digest", ci, "", "refine load: export count differs from the work item's export count", d)
		}
		h.Inc("digests")
		if nx > 0 && zsum > 65535 {
			h.Inc("digests_with_extrinsic_size_over_16_bits")
		}
		if nx != int(it.ExportCount) && ni != nx {
			h.Distinct(ni, nx, zsum, it.ExportCount)
		}
		if ci < 2 {
			h.Sample(d)
		}
	}

	// ---- package specification ---------------------------------------------------------------------------------------------
	m := h.N(160, 3000)
	for ci := 0; ci < m; ci++ {
		if !h.Mine("spec", ci) {
			continue
		}
		r := h.Rng("spec", ci)
		ne := []int{0, 0, 1, 2, 3, 5, 8, 20}[r.IntN(8)]
		if ci%4 == 0 { // around and beyond one page of 64 proofs: several pages, the last one shorter / full / one entry
			ne = []int{63, 64, 65, 66, 100, 127, 128, 129, 130 + r.IntN(70), 65 + r.IntN(135)}[r.IntN(10)]
		}
		bundle := r.Bytes([]int{1, 2, 683, 684, 685, 4104, 10000}[r.IntN(7)])
		h.Case("spec", ci, "", map[string]any{"exports": ne, "bundle_len": len(bundle)})
		exports := make([]types.ExportSegment, ne)
		var leaves [][]byte
		for i := range exports {
			copy(exports[i][:], r.Bytes(types.SegmentSize))
			if r.IntN(4) == 0 {
				exports[i] = types.ExportSegment{} // an all-zero segment
			}
			leaves = append(leaves, append([]byte(nil), exports[i][:]...))
		}
		var wph types.OpaqueHash
		copy(wph[:], r.Bytes(32))
		var spec, spec2 types.WorkPackageSpec
		var err error
		d := map[string]any{"exports": ne, "bundle_len": len(bundle)}
		if pn, msg, st := vh.Guard(func() {
			spec, err = work_package.A(wph, append([]byte(nil), bundle...), exports)
			if err == nil {
				spec2, err = work_package.A(wph, append([]byte(nil), bundle...), exports)
			}
		}); pn {
			d["panic"], d["stack"] = msg, st
			h.Viol("spec", ci, "", "package specification: computation panicked", d)
			continue
		}
		if err != nil {
			d["err"] = err.Error()
			h.Viol("spec", ci, "", "package specification: error on a well-formed bundle and export list", d)
			continue
		}
		want := refmerkle.M(leaves, refmerkle.Blake)
		switch {
		case spec.Hash != types.WorkPackageHash(wph):
			h.Viol("spec", ci, "", "package specification: package hash differs", d)
		case int(spec.Length) != len(bundle):
			d["length"] = spec.Length
			h.Viol("spec", ci, "", "package specification: bundle length differs", d)
		case int(spec.ExportsCount) != ne:
			d["count"] = spec.ExportsCount
			h.Viol("spec", ci, "", "package specification: export count differs", d)
		case !bytes.Equal(spec.ExportsRoot[:], want[:]):
			h.Viol("spec", ci, "", "package specification: exports root differs from M(exports)", d)
		case spec != spec2:
			h.Viol("spec", ci, "", "package specification: two computations on the same data differ", d)
		default:
			if u, merr := modelErasureRoot(bundle, leaves); merr != nil {
				h.Inc("erasure_root_model_failed: " + merr.Error())
			} else if u != [32]byte(spec.ErasureRoot) {
				d["pages"] = (ne + 63) / 64
				h.Viol("spec", ci, "", "package specification: erasure root differs from M_B over [H(bundle chunk) ‖ M_B(segment and paged-proof chunks)]", d)
			} else {
				h.Inc("erasure_roots_compared")
				if ne > 64 {
					h.Inc("erasure_roots_compared_with_several_proof_pages")
				}
			}
		}
		h.Inc("specs")
		if ne == 0 {
			h.Inc("specs_without_exports")
		}
		h.Distinct("spec", ne, len(bundle), spec.ExportsRoot[:])
	}

	// ---- whole report: GP 14.11 over a scripted refinement (fake executor), then C and A ------------------------------------
	k := h.N(300, 6000)
	for ci := 0; ci < k; ci++ {
		if !h.Mine("report", ci) {
			continue
		}
		r := h.Rng("report", ci)
		reportCase(h, ci, r)
	}
}

// scripted stands in for the PVM: it answers the authorisation and every refinement from a script.
type scripted struct {
	auth  []byte
	items []PVM.RefineOutput
}

func (s *scripted) Psi_I(p types.WorkPackage, c types.CoreIndex, code types.ByteSequence) PVM.Psi_I_ReturnType {
	return PVM.Psi_I_ReturnType{WorkExecResult: types.WorkExecResultOk, WorkOutput: s.auth, Gas: 7}
}

func (s *scripted) RefineInvoke(in PVM.RefineInput) PVM.RefineOutput { return s.items[in.WorkItemIndex] }

func reportCase(h *vh.H, ci int, r vh.R) {
	ni := 1 + r.IntN(4)
	var wp types.WorkPackage
	sc := &scripted{auth: r.Bytes([]int{0, 10, 1000, 20000}[r.IntN(4)])}
	WR := types.WorkReportOutputBlobsMaximumSize
	type want struct {
		typ     types.WorkExecResultType
		data    []byte
		exports []types.ExportSegment
		gas     types.Gas
	}
	var wants []want
	z := len(sc.auth)
	var desc []string
	for j := 0; j < ni; j++ {
		var it types.WorkItem
		it.Service = types.ServiceID(r.IntN(5))
		it.ExportCount = types.U16(r.IntN(4))
		it.Payload = r.Bytes(r.IntN(20))
		for x := 0; x < r.IntN(3); x++ {
			it.Extrinsic = append(it.Extrinsic, types.ExtrinsicSpec{Len: types.U32(r.IntN(100000))})
		}
		wp.Items = append(wp.Items, it)
		out := PVM.RefineOutput{Gas: types.Gas(r.IntN(100000))}
		// output sizes chosen so that the running total crosses W_R inside the package now and then
		out.RefineOutput = r.Bytes([]int{0, 5, 1000, 12000, 20000, 30000, WR - z, WR - z + 1}[r.IntN(8)] % (WR + 2))
		kind := "ok"
		switch r.IntN(8) {
		case 0:
			kind, out.WorkResult, out.RefineOutput = "panic", types.WorkExecResultPanic, nil
		case 1:
			kind, out.WorkResult, out.RefineOutput = "out-of-gas", types.WorkExecResultOutOfGas, nil
		default:
			out.WorkResult = types.WorkExecResultOk
		}
		ne := int(it.ExportCount)
		if r.IntN(5) == 0 {
			ne = int(it.ExportCount) + 1 - 2*r.IntN(2) // one too many or one too few
			if ne < 0 {
				ne = 1
			}
		}
		for x := 0; x < ne; x++ {
			var seg types.ExportSegment
			copy(seg[:], r.Bytes(64))
			out.ExportSegment = append(out.ExportSegment, seg)
		}
		sc.items = append(sc.items, out)
		// model of GP 14.11
		w := want{gas: out.Gas, exports: make([]types.ExportSegment, it.ExportCount)}
		switch {
		case len(out.RefineOutput)+z > WR:
			w.typ, kind = types.WorkExecResultReportOversize, kind+"->oversize"
		case ne != int(it.ExportCount):
			w.typ, kind = types.WorkExecResultBadExports, kind+"->bad-exports"
		case out.WorkResult != types.WorkExecResultOk:
			w.typ = out.WorkResult
		default:
			w.typ, w.data, w.exports = types.WorkExecResultOk, out.RefineOutput, out.ExportSegment
			z += len(out.RefineOutput) // only successful outputs count against the budget of later items
		}
		wants = append(wants, w)
		desc = append(desc, fmt.Sprintf("%s(out %d, exports %d/%d)", kind, len(out.RefineOutput), ne, it.ExportCount))
	}
	bundle := r.Bytes(1 + r.IntN(2000))
	var wph, pa types.OpaqueHash
	copy(wph[:], r.Bytes(32))
	copy(pa[:], r.Bytes(32))
	d := map[string]any{"items": fmt.Sprint(desc), "auth_output": len(sc.auth)}
	h.Case("report", ci, "", d)
	var rep types.WorkReport
	var err error
	if pn, msg, st := vh.Guard(func() {
		rep, err = work_package.WorkReportCompute(&wp, 1, pa, nil, PVM.ExtrinsicDataMap{}, nil, types.ServiceAccountState{}, bundle, wph, sc)
	}); pn {
		d["panic"], d["stack"] = msg, st
		h.Viol("report", ci, "", "work report computation panicked", d)
		return
	}
	if err != nil {
		d["err"] = err.Error()
		h.Viol("report", ci, "", "work report computation fails although authorisation succeeded", d)
		return
	}
	if len(rep.Results) != ni {
		h.Viol("report", ci, "", "work report: number of digests differs from the number of items", d)
		return
	}
	var leaves [][]byte
	nexp := 0
	for j, w := range wants {
		g := rep.Results[j]
		d["item"] = j
		if g.Result.Type != w.typ {
			d["got"], d["want"] = fmt.Sprint(g.Result.Type), fmt.Sprint(w.typ)
			h.Viol("report", ci, "", "work digest: refinement result kind differs from GP 14.11 (oversize / bad exports / error / ok)", d)
			return
		}
		if w.typ == types.WorkExecResultOk && !bytes.Equal(g.Result.Data, w.data) {
			h.Viol("report", ci, "", "work digest: refinement output not carried over", d)
			return
		}
		it := wp.Items[j]
		var zs uint64
		for _, x := range it.Extrinsic {
			zs += uint64(x.Len)
		}
		if g.ServiceID != it.Service || g.RefineLoad.GasUsed != w.gas || int(g.RefineLoad.ExtrinsicCount) != len(it.Extrinsic) || uint64(g.RefineLoad.ExtrinsicSize) != zs || g.RefineLoad.Exports != it.ExportCount {
			d["load"] = fmt.Sprintf("%+v", g.RefineLoad)
			h.Viol("report", ci, "", "work digest inside the report: service or refine load differs", d)
			return
		}
		for _, e := range w.exports {
			leaves = append(leaves, append([]byte(nil), e[:]...))
		}
		nexp += len(w.exports)
		h.Inc("report_items_" + map[types.WorkExecResultType]string{types.WorkExecResultOk: "ok", types.WorkExecResultReportOversize: "oversize", types.WorkExecResultBadExports: "bad_exports",
			types.WorkExecResultPanic: "panic", types.WorkExecResultOutOfGas: "out_of_gas"}[w.typ])
	}
	delete(d, "item")
	root := refmerkle.M(leaves, refmerkle.Blake)
	switch {
	case int(rep.PackageSpec.ExportsCount) != nexp:
		h.Viol("report", ci, "", "package specification inside the report: export count differs", d)
	case !bytes.Equal(rep.PackageSpec.ExportsRoot[:], root[:]):
		h.Viol("report", ci, "", "package specification inside the report: exports root is not M over the segments the items export (zero segments for failed items)", d)
	case int(rep.PackageSpec.Length) != len(bundle) || rep.PackageSpec.Hash != types.WorkPackageHash(wph):
		h.Viol("report", ci, "", "package specification inside the report: hash or bundle length differs", d)
	case !bytes.Equal(rep.AuthOutput, sc.auth) || rep.AuthorizerHash != pa || rep.CoreIndex != 1:
		h.Viol("report", ci, "", "work report: authoriser output, authoriser hash or core differs", d)
	}
	h.Inc("reports")
	h.Distinct("report", fmt.Sprint(desc))
}
