// C32 — work digest and package specification fields (DESIGN §2 C32).
//
//	digest  C(item, result, gas) = (service, code hash, H(payload), accumulate gas, result,
//	        load = (gas used, |imports|, |extrinsics|, Σ extrinsic lengths, export count))        — GP 14.8
//	spec    A(hash, bundle, exports) = (hash, |bundle|, erasure root, M(exports), |exports|)           — GP 14.16
//
// The erasure root is computed by the repository's code over a stand-in Reed-Solomon crate and is therefore not compared
// with anything; it only has to be produced (no error, no panic, same value twice).
package c32

import (
	"bytes"
	"fmt"
	"testing"

	"github.com/New-JAMneration/JAM-Protocol/internal/types"
	"github.com/New-JAMneration/JAM-Protocol/internal/work_package"
	"github.com/New-JAMneration/JAM-Protocol/internal/zzverif/refmerkle"
	"github.com/New-JAMneration/JAM-Protocol/internal/zzverif/vh"
)

func TestVerifC32(t *testing.T) {
	h := vh.Open(t, "C32")
	defer h.Done()
	types.SetTinyMode()

	n := h.N(20000, 400000)
	for ci := 0; ci < n; ci++ {
		if !h.Mine("digest", ci) {
			continue
		}
		h.CaseLight("digest", ci)
		r := h.Rng("digest", ci)
		var it types.WorkItem
		it.Service = types.ServiceID(r.U32())
		copy(it.CodeHash[:], r.Bytes(32))
		it.RefineGasLimit = types.Gas(r.U64() >> 2)
		it.AccumulateGasLimit = types.Gas(r.U64() >> 2)
		it.ExportCount = types.U16([]int{0, 1, 2, 63, 64, 255, 256, 3072, 65535}[r.IntN(9)])
		if r.Bool() {
			it.ExportCount = types.U16(r.IntN(3073))
		}
		it.Payload = r.Bytes([]int{0, 1, 32, 33, 500}[r.IntN(5)])
		ni := r.IntN(17)
		for i := 0; i < ni; i++ {
			var s types.ImportSpec
			copy(s.TreeRoot[:], r.Bytes(32))
			s.Index = types.U16(r.IntN(3072))
			it.ImportSegments = append(it.ImportSegments, s)
		}
		nx := r.IntN(17)
		var zsum uint64
		for i := 0; i < nx; i++ {
			var s types.ExtrinsicSpec
			copy(s.Hash[:], r.Bytes(32))
			s.Len = types.U32([]int{0, 1, 255, 256, 65535, 65536, 65537, 1 << 20}[r.IntN(8)])
			if r.Bool() {
				s.Len = types.U32(r.IntN(1 << 20))
			}
			zsum += uint64(s.Len)
			it.Extrinsic = append(it.Extrinsic, s)
		}
		var res types.WorkExecResult
		switch k := r.IntN(7); k {
		case 0, 1:
			res = types.WorkExecResult{Type: types.WorkExecResultOk, Data: r.Bytes(r.IntN(60))}
		default:
			res = types.WorkExecResult{Type: []types.WorkExecResultType{types.WorkExecResultOutOfGas, types.WorkExecResultPanic, types.WorkExecResultBadExports,
				types.WorkExecResultReportOversize, types.WorkExecResultBadCode, types.WorkExecResultCodeOversize}[r.IntN(6)]}
		}
		gas := types.Gas(r.U64() >> 2)
		var got types.WorkResult
		if pn, msg, st := vh.Guard(func() { got = work_package.C(it, res, gas) }); pn {
			h.Viol("digest", ci, "", "digest computation panicked", map[string]any{"panic": msg, "stack": st})
			continue
		}
		ph := refmerkle.Blake(it.Payload)
		d := map[string]any{"imports": ni, "extrinsics": nx, "extrinsic_size_sum": zsum, "export_count": it.ExportCount, "gas": gas,
			"load": fmt.Sprintf("%+v", got.RefineLoad)}
		switch {
		case got.ServiceID != it.Service || got.CodeHash != it.CodeHash || got.AccumulateGas != it.AccumulateGasLimit || !bytes.Equal(got.PayloadHash[:], ph[:]):
			h.Viol("digest", ci, "", "digest: service, code hash, payload hash or accumulate gas differ from the work item", d)
		case got.Result.Type != res.Type || !bytes.Equal(got.Result.Data, res.Data):
			h.Viol("digest", ci, "", "digest: refinement result not carried over", d)
		case got.RefineLoad.GasUsed != gas:
			h.Viol("digest", ci, "", "refine load: gas used differs", d)
		case uint64(got.RefineLoad.Imports) != uint64(ni):
			h.Viol("digest", ci, "", "refine load: import count differs from the number of import specs", d)
		case uint64(got.RefineLoad.ExtrinsicCount) != uint64(nx):
			h.Viol("digest", ci, "", "refine load: extrinsic count differs from the number of extrinsic specs", d)
		case uint64(got.RefineLoad.ExtrinsicSize) != zsum:
			h.Viol("digest", ci, "", "refine load: extrinsic size differs from the sum of the extrinsic lengths", d)
		case got.RefineLoad.Exports != it.ExportCount:
			h.Viol("digest", ci, "", "refine load: export count differs from the work item's export count", d)
		}
		h.Inc("digests")
		if nx > 0 && zsum > 65535 {
			h.Inc("digests_with_extrinsic_size_over_16_bits")
		}
		if nx != int(it.ExportCount) && ni != nx {
			h.Distinct(ni, nx, zsum, it.ExportCount)
		}
		if ci < 2 {
			h.Sample(d)
		}
	}

	// ---- package specification ---------------------------------------------------------------------------------------------
	m := h.N(160, 3000)
	for ci := 0; ci < m; ci++ {
		if !h.Mine("spec", ci) {
			continue
		}
		r := h.Rng("spec", ci)
		ne := []int{0, 0, 1, 2, 3, 5, 8, 20}[r.IntN(8)]
		if h.Thorough() && ci%40 == 0 {
			ne = 63 + r.IntN(4)
		}
		bundle := r.Bytes([]int{1, 2, 683, 684, 685, 4104, 10000}[r.IntN(7)])
		h.Case("spec", ci, "", map[string]any{"exports": ne, "bundle_len": len(bundle)})
		exports := make([]types.ExportSegment, ne)
		var leaves [][]byte
		for i := range exports {
			copy(exports[i][:], r.Bytes(types.SegmentSize))
			if r.IntN(4) == 0 {
				exports[i] = types.ExportSegment{} // an all-zero segment
			}
			leaves = append(leaves, append([]byte(nil), exports[i][:]...))
		}
		var wph types.OpaqueHash
		copy(wph[:], r.Bytes(32))
		var spec, spec2 types.WorkPackageSpec
		var err error
		d := map[string]any{"exports": ne, "bundle_len": len(bundle)}
		if pn, msg, st := vh.Guard(func() {
			spec, err = work_package.A(wph, append([]byte(nil), bundle...), exports)
			if err == nil {
				spec2, err = work_package.A(wph, append([]byte(nil), bundle...), exports)
			}
		}); pn {
			d["panic"], d["stack"] = msg, st
			h.Viol("spec", ci, "", "package specification: computation panicked", d)
			continue
		}
		if err != nil {
			d["err"] = err.Error()
			h.Viol("spec", ci, "", "package specification: error on a well-formed bundle and export list", d)
			continue
		}
		want := refmerkle.M(leaves, refmerkle.Blake)
		switch {
		case spec.Hash != types.WorkPackageHash(wph):
			h.Viol("spec", ci, "", "package specification: package hash differs", d)
		case int(spec.Length) != len(bundle):
			d["length"] = spec.Length
			h.Viol("spec", ci, "", "package specification: bundle length differs", d)
		case int(spec.ExportsCount) != ne:
			d["count"] = spec.ExportsCount
			h.Viol("spec", ci, "", "package specification: export count differs", d)
		case !bytes.Equal(spec.ExportsRoot[:], want[:]):
			h.Viol("spec", ci, "", "package specification: exports root differs from M(exports)", d)
		case spec != spec2:
			h.Viol("spec", ci, "", "package specification: two computations on the same data differ", d)
		}
		h.Inc("specs")
		if ne == 0 {
			h.Inc("specs_without_exports")
		}
		h.Distinct("spec", ne, len(bundle), spec.ExportsRoot[:])
	}
}
