// Package vgen builds random well-formed values of the repository's protocol types by reflection
// (sizes 0..3, boundary-biased integers) with a small table of the constraints the wire format imposes
// (fixed-length sequences, the work-result union). It is part of /verif's harness, not of the repository.
package vgen

import (
	"reflect"

	"github.com/New-JAMneration/JAM-Protocol/internal/types"
	"github.com/New-JAMneration/JAM-Protocol/internal/zzverif/vh"
)

var (
	tWorkExecResult = reflect.TypeOf(types.WorkExecResult{})
	tTicketsMark    = reflect.TypeOf(types.TicketsMark{})
	tBitfield       = reflect.TypeOf(types.Bitfield{})
	tTicketsOrKeys  = reflect.TypeOf(types.TicketsOrKeys{})
)

// Fill sets v (a pointer) to a random well-formed value.
func Fill(r vh.R, v any) {
	fill(r, reflect.ValueOf(v).Elem(), 0)
}

// fixedLen gives the length the wire format fixes for a named sequence type (or struct field).
func fixedLen(name string) (int, bool) {
	switch name {
	case "AccumulatedQueue", "ReadyQueue":
		return types.EpochLength, true
	case "AuthPools", "AuthQueues", "AvailabilityAssignments", "CoresStatistics", "ServiceIDList":
		return types.CoresCount, true
	case "AuthQueue":
		return types.AuthQueueSize, true
	case "ValidatorsData", "ValidatorsStatistics":
		return types.ValidatorsCount, true
	case "Verdict.Votes":
		return types.ValidatorsSuperMajority, true
	case "EpochMark.Validators":
		return types.ValidatorsCount, true
	}
	return 0, false
}

func fill(r vh.R, v reflect.Value, depth int) {
	t := v.Type()
	if t.Kind() == reflect.Slice {
		if n, ok := fixedLen(t.Name()); ok {
			s := reflect.MakeSlice(t, n, n)
			for i := 0; i < n; i++ {
				fill(r, s.Index(i), depth+1)
			}
			v.Set(s)
			return
		}
	}
	switch t {
	case tWorkExecResult:
		k := r.IntN(7)
		res := types.WorkExecResult{Type: []types.WorkExecResultType{types.WorkExecResultOk, types.WorkExecResultOutOfGas, types.WorkExecResultPanic, types.WorkExecResultBadExports,
			types.WorkExecResultReportOversize, types.WorkExecResultBadCode, types.WorkExecResultCodeOversize}[k]}
		if k == 0 {
			res.Data = r.Bytes(r.IntN(40))
		}
		v.Set(reflect.ValueOf(res))
		return
	case tTicketsMark:
		s := reflect.MakeSlice(t, types.EpochLength, types.EpochLength)
		for i := 0; i < s.Len(); i++ {
			fill(r, s.Index(i), depth+1)
		}
		v.Set(s)
		return
	case tTicketsOrKeys: // a union: exactly one of the two, one entry per slot of the epoch
		var tk types.TicketsOrKeys
		if r.Bool() {
			tk.Tickets = make([]types.TicketBody, types.EpochLength)
			for i := range tk.Tickets {
				fill(r, reflect.ValueOf(&tk.Tickets[i]).Elem(), depth+1)
			}
		} else {
			tk.Keys = make([]types.BandersnatchPublic, types.EpochLength)
			for i := range tk.Keys {
				fill(r, reflect.ValueOf(&tk.Keys[i]).Elem(), depth+1)
			}
		}
		v.Set(reflect.ValueOf(tk))
		return
	case tBitfield:
		bf := make(types.Bitfield, types.CoresCount) // one entry per core, 0 or 1
		for i := range bf {
			bf[i] = byte(r.IntN(2))
		}
		v.Set(reflect.ValueOf(bf))
		return
	}
	switch t.Kind() {
	case reflect.Bool:
		v.SetBool(r.Bool())
	case reflect.Uint8, reflect.Uint16, reflect.Uint32, reflect.Uint64, reflect.Uint:
		x := r.U64()
		v.SetUint(x & (1<<uint(t.Bits()) - 1 | (1<<uint(t.Bits()) - 1)))
		if t.Bits() < 64 {
			v.SetUint(x & (1<<uint(t.Bits()) - 1))
		}
	case reflect.Int8, reflect.Int16, reflect.Int32, reflect.Int64, reflect.Int:
		x := int64(r.U64())
		if t.Bits() < 64 {
			x = x << uint(64-t.Bits()) >> uint(64-t.Bits())
		}
		v.SetInt(x)
	case reflect.String:
		v.SetString(string(r.Bytes(r.IntN(12))))
	case reflect.Array:
		if t.Elem().Kind() == reflect.Uint8 {
			b := r.Bytes(t.Len())
			reflect.Copy(v, reflect.ValueOf(b))
			return
		}
		for i := 0; i < t.Len(); i++ {
			fill(r, v.Index(i), depth+1)
		}
	case reflect.Slice:
		n := []int{0, 0, 1, 1, 2, 3}[r.IntN(6)]
		if depth > 6 {
			n = 0
		}
		if t.Elem().Kind() == reflect.Uint8 {
			n = []int{0, 1, 31, 32, 33, 127, 128, 300}[r.IntN(8)]
			b := r.Bytes(n)
			s := reflect.MakeSlice(t, n, n)
			reflect.Copy(s, reflect.ValueOf(b))
			v.Set(s)
			return
		}
		s := reflect.MakeSlice(t, n, n)
		for i := 0; i < n; i++ {
			fill(r, s.Index(i), depth+1)
		}
		v.Set(s)
	case reflect.Map:
		n := r.IntN(4)
		m := reflect.MakeMapWithSize(t, n)
		var prev reflect.Value
		for i := 0; i < n; i++ {
			k := reflect.New(t.Key()).Elem()
			e := reflect.New(t.Elem()).Elem()
			if i > 0 && r.Bool() {
				// a key that agrees with the previous one except in its last component (same hash, other length; same
				// prefix, other last byte): ties on the leading components are where key ordering goes wrong
				k.Set(prev)
				perturbTail(r, k)
			} else {
				fill(r, k, depth+1)
			}
			prev = k
			fill(r, e, depth+1)
			if t.Elem().Kind() == reflect.Bool { // map[K]bool is the repository's representation of a set
				e.SetBool(true)
			}
			m.SetMapIndex(k, e)
		}
		v.Set(m)
	case reflect.Ptr:
		if r.Bool() {
			v.Set(reflect.Zero(t))
			return
		}
		p := reflect.New(t.Elem())
		fill(r, p.Elem(), depth+1)
		v.Set(p)
	case reflect.Struct:
		for i := 0; i < t.NumField(); i++ {
			f := v.Field(i)
			if !f.CanSet() {
				continue
			}
			if n, ok := fixedLen(t.Name() + "." + t.Field(i).Name); ok && f.Kind() == reflect.Slice {
				s := reflect.MakeSlice(f.Type(), n, n)
				for j := 0; j < s.Len(); j++ {
					fill(r, s.Index(j), depth+1)
				}
				f.Set(s)
				continue
			}
			fill(r, f, depth+1)
		}
	case reflect.Interface:
		// left nil
	}
}


// perturbTail changes only the last component of a (map key) value.
func perturbTail(r vh.R, v reflect.Value) {
	switch v.Kind() {
	case reflect.Struct:
		for i := v.NumField() - 1; i >= 0; i-- {
			if v.Field(i).CanSet() {
				perturbTail(r, v.Field(i))
				return
			}
		}
	case reflect.Array:
		if v.Len() > 0 {
			perturbTail(r, v.Index(v.Len()-1))
		}
	case reflect.Uint8, reflect.Uint16, reflect.Uint32, reflect.Uint64, reflect.Uint:
		d := uint64(1 + r.IntN(3))
		if r.Bool() {
			d = -d
		}
		x := v.Uint() + d
		if v.Type().Bits() < 64 {
			x &= 1<<uint(v.Type().Bits()) - 1
		}
		v.SetUint(x)
	case reflect.Int8, reflect.Int16, reflect.Int32, reflect.Int64, reflect.Int:
		v.SetInt(v.Int() ^ 1)
	case reflect.String:
		v.SetString(v.String() + string(rune('a'+r.IntN(26))))
	case reflect.Slice:
		if v.Type().Elem().Kind() == reflect.Uint8 {
			b := append(append([]byte(nil), v.Bytes()...), byte(r.IntN(256)))
			nv := reflect.MakeSlice(v.Type(), len(b), len(b))
			reflect.Copy(nv, reflect.ValueOf(b))
			v.Set(nv)
		}
	}
}
