package vgen

import (
	"fmt"
	"reflect"
)

// Equal is deep equality where nil and empty slices / maps are the same value.
func Equal(a, b any) bool { return eqv(reflect.ValueOf(a), reflect.ValueOf(b)) }

// Diff returns the path of the first difference ("" if equal), for reports only.
func Diff(a, b any, root string) string { return diffPath(reflect.ValueOf(a), reflect.ValueOf(b), root) }

func eqv(a, b reflect.Value) bool {
	if a.Type() != b.Type() {
		return false
	}
	switch a.Kind() {
	case reflect.Slice:
		if a.Len() != b.Len() {
			return false
		}
		for i := 0; i < a.Len(); i++ {
			if !eqv(a.Index(i), b.Index(i)) {
				return false
			}
		}
		return true
	case reflect.Array:
		for i := 0; i < a.Len(); i++ {
			if !eqv(a.Index(i), b.Index(i)) {
				return false
			}
		}
		return true
	case reflect.Map:
		if a.Len() != b.Len() {
			return false
		}
		it := a.MapRange()
		for it.Next() {
			bv := b.MapIndex(it.Key())
			if !bv.IsValid() || !eqv(it.Value(), bv) {
				return false
			}
		}
		return true
	case reflect.Ptr, reflect.Interface:
		if a.IsNil() || b.IsNil() {
			return a.IsNil() == b.IsNil()
		}
		return eqv(a.Elem(), b.Elem())
	case reflect.Struct:
		for i := 0; i < a.NumField(); i++ {
			if !eqv(a.Field(i), b.Field(i)) {
				return false
			}
		}
		return true
	default:
		return reflect.DeepEqual(a.Interface(), b.Interface())
	}
}

func diffPath(a, b reflect.Value, path string) string {
	if eqv(a, b) {
		return ""
	}
	switch a.Kind() {
	case reflect.Struct:
		for i := 0; i < a.NumField(); i++ {
			if p := diffPath(a.Field(i), b.Field(i), path+"."+a.Type().Field(i).Name); p != "" {
				return p
			}
		}
	case reflect.Slice, reflect.Array:
		if a.Len() != b.Len() {
			return fmt.Sprintf("%s (len %d vs %d)", path, a.Len(), b.Len())
		}
		for i := 0; i < a.Len(); i++ {
			if p := diffPath(a.Index(i), b.Index(i), fmt.Sprintf("%s[%d]", path, i)); p != "" {
				return p
			}
		}
	case reflect.Ptr:
		if !a.IsNil() && !b.IsNil() {
			return diffPath(a.Elem(), b.Elem(), path)
		}
	case reflect.Map:
		if a.Len() != b.Len() {
			return fmt.Sprintf("%s (map len %d vs %d)", path, a.Len(), b.Len())
		}
		it := a.MapRange()
		for it.Next() {
			bv := b.MapIndex(it.Key())
			if !bv.IsValid() {
				return fmt.Sprintf("%s[%v] missing", path, it.Key())
			}
			if p := diffPath(it.Value(), bv, fmt.Sprintf("%s[%v]", path, it.Key())); p != "" {
				return p
			}
		}
	}
	return path
}
