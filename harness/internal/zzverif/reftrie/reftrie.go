// Package reftrie is /verif's independent model of the GP Appendix D state trie: keys are
// inserted bit by bit into an explicit binary trie, which is then hashed. It shares no code
// with internal/utilities/merklization (different algorithm, x/crypto blake2b used directly).
package reftrie

import "golang.org/x/crypto/blake2b"

type KV struct {
	Key   [31]byte
	Value []byte
}

type node struct {
	kv *KV
	c  [2]*node
	n  int
}

func bit(k *[31]byte, d int) int { return int(k[d/8]>>(7-uint(d%8))) & 1 }

func insert(root *node, kv *KV) {
	cur := root
	for d := 0; ; d++ {
		cur.n++
		if cur.n == 1 {
			cur.kv = kv
			return
		}
		if cur.kv != nil { // a leaf sits here: push it one level down
			old := cur.kv
			cur.kv = nil
			cur.c[bit(&old.Key, d)] = &node{kv: old, n: 1}
		}
		b := bit(&kv.Key, d)
		if cur.c[b] == nil {
			cur.c[b] = &node{kv: kv, n: 1}
			return
		}
		cur = cur.c[b]
	}
}

func leaf(kv *KV) [32]byte {
	var n [64]byte
	copy(n[1:32], kv.Key[:])
	if len(kv.Value) <= 32 {
		n[0] = 0x80 | byte(len(kv.Value))
		copy(n[32:], kv.Value)
	} else {
		n[0] = 0xC0
		h := blake2b.Sum256(kv.Value)
		copy(n[32:], h[:])
	}
	return blake2b.Sum256(n[:])
}

func hashNode(n *node) [32]byte {
	if n == nil || n.n == 0 {
		return [32]byte{}
	}
	if n.kv != nil {
		return leaf(n.kv)
	}
	l, r := hashNode(n.c[0]), hashNode(n.c[1])
	var b [64]byte
	copy(b[:32], l[:])
	b[0] &= 0x7F
	copy(b[32:], r[:])
	return blake2b.Sum256(b[:])
}

// Root computes the trie root of entries with DISTINCT keys.
func Root(entries []KV) [32]byte {
	root := &node{}
	for i := range entries {
		insert(root, &entries[i])
	}
	return hashNode(root)
}

// Depth returns the maximum leaf depth (for coverage statistics).
func Depth(entries []KV) int {
	root := &node{}
	for i := range entries {
		insert(root, &entries[i])
	}
	var rec func(n *node, d int) int
	rec = func(n *node, d int) int {
		if n == nil || n.kv != nil || n.n == 0 {
			return d
		}
		return max(rec(n.c[0], d+1), rec(n.c[1], d+1))
	}
	return rec(root, 0)
}
