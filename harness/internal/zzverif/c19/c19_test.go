package c19

import (
	"bytes"
	"math/bits"
	"testing"

	rh "github.com/New-JAMneration/JAM-Protocol/internal/recent_history"
	"github.com/New-JAMneration/JAM-Protocol/internal/types"
	"github.com/New-JAMneration/JAM-Protocol/internal/utilities/hash"
	"github.com/New-JAMneration/JAM-Protocol/internal/utilities/mmr"
	"github.com/New-JAMneration/JAM-Protocol/internal/zzverif/vh"
	"golang.org/x/crypto/sha3"
)

// independent Keccak-256 (x/crypto directly, not the repository's wrapper)
func keccak(parts ...[]byte) (out types.OpaqueHash) {
	k := sha3.NewLegacyKeccak256()
	for _, p := range parts {
		k.Write(p)
	}
	copy(out[:], k.Sum(nil))
	return
}

// merge tree of items[lo:hi) (hi-lo a power of two)
func mountain(items []types.OpaqueHash, lo, hi int) types.OpaqueHash {
	if hi-lo == 1 {
		return items[lo]
	}
	mid := (lo + hi) / 2
	l, r := mountain(items, lo, mid), mountain(items, mid, hi)
	return keccak(l[:], r[:])
}

// model peaks for a sequence of n items: peak i present iff bit i of n; high bits cover the earliest items
func modelPeaks(items []types.OpaqueHash) []*types.OpaqueHash {
	n := len(items)
	out := make([]*types.OpaqueHash, bits.Len(uint(n)))
	start := 0
	for i := len(out) - 1; i >= 0; i-- {
		if n&(1<<uint(i)) != 0 {
			p := mountain(items, start, start+(1<<uint(i)))
			out[i] = &p
			start += 1 << uint(i)
		}
	}
	return out
}

func modelSuper(peaks []*types.OpaqueHash) types.OpaqueHash {
	var hs []types.OpaqueHash
	for _, p := range peaks {
		if p != nil {
			hs = append(hs, *p)
		}
	}
	if len(hs) == 0 {
		return types.OpaqueHash{}
	}
	acc := hs[0]
	for k := 1; k < len(hs); k++ {
		acc = keccak([]byte("peak"), acc[:], hs[k][:])
	}
	return acc
}

type snap struct {
	when  int
	slice []types.MmrPeak     // the slice header handed out
	ptrs  []types.MmrPeak     // copy of the pointer values
	vals  []*types.OpaqueHash // deep copies
}

func takeSnap(when int, s []types.MmrPeak) snap {
	sn := snap{when: when, slice: s, ptrs: append([]types.MmrPeak(nil), s...)}
	for _, p := range s {
		if p == nil {
			sn.vals = append(sn.vals, nil)
		} else {
			c := *p
			sn.vals = append(sn.vals, &c)
		}
	}
	return sn
}

func (sn snap) intact() bool {
	if len(sn.slice) != len(sn.ptrs) {
		return false
	}
	for i := range sn.slice {
		if sn.slice[i] != sn.ptrs[i] {
			return false
		}
		if (sn.slice[i] == nil) != (sn.vals[i] == nil) {
			return false
		}
		if sn.slice[i] != nil && *sn.slice[i] != *sn.vals[i] {
			return false
		}
	}
	return true
}

func peaksEqual(got []types.MmrPeak, want []*types.OpaqueHash) bool {
	// trailing nil entries are tolerated on the implementation side only if the model has them too: exact length required
	if len(got) != len(want) {
		return false
	}
	for i := range got {
		if (got[i] == nil) != (want[i] == nil) {
			return false
		}
		if got[i] != nil && !bytes.Equal(got[i][:], want[i][:]) {
			return false
		}
	}
	return true
}

func describe(p []types.MmrPeak) []string {
	out := make([]string, len(p))
	for i := range p {
		if p[i] == nil {
			out[i] = "-"
		} else {
			out[i] = vh.Hex(p[i][:4])
		}
	}
	return out
}

func TestVerifC19(t *testing.T) {
	h := vh.Open(t, "C19")
	defer h.Done()

	// sanity of the model's hash against the repository's hash wrapper (only reported, both are used)
	if hash.KeccakHash([]byte("abc")) != keccak([]byte("abc")) {
		h.Viol("sanity", 0, "", "keccak-wrapper-differs-from-x/crypto", map[string]any{})
	}

	nseq := h.N(24, 160)
	maxLen := h.N(300, 2000)
	for ci := 0; ci < nseq; ci++ {
		if !h.Mine("hist", ci) {
			continue
		}
		h.CaseLight("hist", ci)
		r := h.Rng("hist", ci)
		L := maxLen
		if ci%3 != 0 {
			L = 1 + r.IntN(maxLen)
		}
		mode := ci % 4 // 0: one MMR object; 1: restart from a state copy at random points; 2: via AppendAndCommitMmr; 3: restart with spare capacity
		items := make([]types.OpaqueHash, 0, L)
		zeroHeavy := r.IntN(3) == 0
		m := mmr.NewMMR(hash.KeccakHash)
		var state types.Mmr
		var snaps []snap
		bad := false
		for k := 0; k < L && !bad; k++ {
			var it types.OpaqueHash
			copy(it[:], r.Bytes(32))
			if r.IntN(50) == 0 && len(items) > 0 {
				it = items[r.IntN(len(items))] // repeated item
			}
			if zeroHeavy && r.IntN(3) == 0 {
				it = types.OpaqueHash{} // the all-zero item (the commitment of a block without accumulation outputs): a leaf like any other
				h.Inc("all_zero_items_appended")
			}
			items = append(items, it)
			var got []types.MmrPeak
			var commit types.OpaqueHash
			haveCommit := false
			arg := it // the callee gets a pointer to this copy
			p, msg, st := vh.Guard(func() {
				switch mode {
				case 0:
					got = m.AppendOne(&arg)
				case 1, 3:
					if r.IntN(4) == 0 {
						// restore from a copy of the state (what a node does after a restart)
						cp := make([]types.MmrPeak, len(state.Peaks), len(state.Peaks)+r.IntN(4)*(mode/3))
						for i, pk := range state.Peaks {
							if pk != nil {
								c := *pk
								cp[i] = &c
							}
						}
						if mode == 3 {
							// spare capacity filled with a canary pointer: append-aliasing must not be observable by the holder of cp
							full := cp[:cap(cp)]
							for i := len(cp); i < len(full); i++ {
								full[i] = &types.OpaqueHash{0xCA}
							}
						}
						snaps = append(snaps, takeSnap(k, cp))
						m = mmr.NewMMRFromPeaks(cp, hash.KeccakHash)
						h.Inc("restarts")
					}
					got = m.AppendOne(&arg)
					state = types.Mmr{Peaks: got}
				case 2:
					state, commit = rh.AppendAndCommitMmr(state, arg)
					got = state.Peaks
					haveCommit = true
				}
			})
			if p {
				h.Viol("hist", ci, "", "append-panic", map[string]any{"k": k, "mode": mode, "panic": msg, "stack": st})
				bad = true
				break
			}
			want := modelPeaks(items)
			if !peaksEqual(got, want) {
				wd := make([]types.MmrPeak, len(want))
				for i := range want {
					wd[i] = want[i]
				}
				h.Viol("hist", ci, "", "peaks-differ", map[string]any{"count": k + 1, "mode": mode, "got": describe(got), "model": describe(wd)})
				bad = true
			}
			sp := m.SuperPeak(got)
			if ms := modelSuper(want); sp != ms || (haveCommit && commit != ms) {
				h.Viol("hist", ci, "", "superpeak-differs", map[string]any{"count": k + 1, "mode": mode, "got": vh.Hex(sp[:]), "model": vh.Hex(ms[:])})
				bad = true
			}
			snaps = append(snaps, takeSnap(k, got))
			if len(snaps) > 64 { // check and retire old snapshots to bound memory
				for _, s := range snaps[:32] {
					if !s.intact() {
						h.Viol("hist", ci, "", "handed-out-peaks-modified", map[string]any{"handed_at": s.when, "seen_at": k, "mode": mode})
						bad = true
					}
				}
				snaps = append([]snap(nil), snaps[32:]...)
			}
			h.Inc("appends")
		}
		for _, s := range snaps {
			if !s.intact() {
				h.Viol("hist", ci, "", "handed-out-peaks-modified", map[string]any{"handed_at": s.when, "seen_at": L, "mode": mode})
			}
		}
		h.Distinct("hist", ci, L, mode)
		if ci < 3 {
			h.Sample(map[string]any{"appends": L, "mode": mode, "final_peaks": describe(m.Peaks)})
		}
	}

	// direct P / Replace on caller-owned slices with spare capacity and holes
	np := h.N(2000, 30000)
	for ci := 0; ci < np; ci++ {
		if !h.Mine("P", ci) {
			continue
		}
		h.CaseLight("P", ci)
		r := h.Rng("P", ci)
		n := r.IntN(8)
		backing := make([]types.MmrPeak, n, n+r.IntN(3))
		for i := range backing {
			if r.Bool() {
				var x types.OpaqueHash
				copy(x[:], r.Bytes(32))
				backing[i] = &x
			}
		}
		s := takeSnap(0, backing)
		var l types.OpaqueHash
		copy(l[:], r.Bytes(32))
		m := mmr.NewMMR(hash.KeccakHash)
		var got []types.MmrPeak
		if p, msg, st := vh.Guard(func() { got = m.P(backing, &l, 0) }); p {
			h.Viol("P", ci, "", "P-panic", map[string]any{"panic": msg, "stack": st})
			continue
		}
		// model of E.8 on the same input
		want := make([]*types.OpaqueHash, n)
		copy(want, s.vals)
		carry := l
		pos := 0
		for {
			if pos >= len(want) {
				c := carry
				want = append(want, &c)
				break
			}
			if want[pos] == nil {
				c := carry
				want[pos] = &c
				break
			}
			carry = keccak(want[pos][:], carry[:])
			want[pos] = nil
			pos++
		}
		if !peaksEqual(got, want) {
			h.Viol("P", ci, "", "P-differs", map[string]any{"in": describe(s.ptrs), "got": describe(got)})
		}
		if !s.intact() {
			h.Viol("P", ci, "", "P-modified-its-input", map[string]any{"in": describe(s.ptrs), "now": describe(backing)})
		}
		h.Inc("P_calls")
		h.Distinct("P", describe(s.ptrs))
		// two forks restored from the SAME peak list (siblings of one parent state) must not influence each other
		var a, b types.OpaqueHash
		copy(a[:], r.Bytes(32))
		copy(b[:], r.Bytes(32))
		m1 := mmr.NewMMRFromPeaks(backing, hash.KeccakHash)
		m2 := mmr.NewMMRFromPeaks(backing, hash.KeccakHash)
		var g1, g2 []types.MmrPeak
		if p, msg, st := vh.Guard(func() { g1 = m1.AppendOne(&a) }); p {
			h.Viol("P", ci, "", "fork-append-panic", map[string]any{"panic": msg, "stack": st})
			continue
		}
		s1 := takeSnap(1, g1)
		if p, msg, st := vh.Guard(func() { g2 = m2.AppendOne(&b) }); p {
			h.Viol("P", ci, "", "fork-append-panic", map[string]any{"panic": msg, "stack": st})
			continue
		}
		_ = g2
		if !s1.intact() || !s.intact() {
			h.Viol("P", ci, "", "fork-sibling-append-modified-peaks", map[string]any{"in": describe(s.ptrs), "fork1_before": describe(s1.ptrs), "fork1_now": describe(g1)})
		}
		h.Inc("fork_pairs")
	}
}
