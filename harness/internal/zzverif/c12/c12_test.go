package c12

import (
	"bytes"
	"encoding/binary"
	"fmt"
	"testing"

	"github.com/New-JAMneration/JAM-Protocol/PVM"
	"github.com/New-JAMneration/JAM-Protocol/internal/fuzz"
	"github.com/New-JAMneration/JAM-Protocol/internal/telemetry"
	"github.com/New-JAMneration/JAM-Protocol/internal/types"
	"github.com/New-JAMneration/JAM-Protocol/internal/utilities"
	"github.com/New-JAMneration/JAM-Protocol/internal/zzverif/vh"
)

// ---- model of GP C.6 --------------------------------------------------------------------

func mEncode(x uint64) []byte {
	if x < 1<<7 {
		return []byte{byte(x)}
	}
	for l := uint(1); l <= 7; l++ {
		if x < uint64(1)<<(7*(l+1)) {
			out := []byte{byte(256 - (1 << (8 - l)) + int(x>>(8*l)))}
			for i := uint(0); i < l; i++ {
				out = append(out, byte(x>>(8*i)))
			}
			return out
		}
	}
	out := make([]byte, 9)
	out[0] = 0xFF
	binary.LittleEndian.PutUint64(out[1:], x)
	return out
}

// mDecode: is some prefix of s the canonical encoding of a value?
func mDecode(s []byte) (v uint64, n int, ok bool) {
	if len(s) == 0 {
		return 0, 0, false
	}
	l := 0
	for l < 8 && s[0]&(0x80>>uint(l)) != 0 {
		l++
	}
	if len(s) < 1+l {
		return 0, 0, false
	}
	if l == 8 {
		v = binary.LittleEndian.Uint64(s[1:9])
		if v < 1<<56 {
			return 0, 0, false
		}
		return v, 9, true
	}
	for i := 0; i < l; i++ {
		v |= uint64(s[1+i]) << (8 * uint(i))
	}
	mask := byte(0xFF >> uint(l+1))
	if l == 7 {
		mask = 0
	}
	v |= uint64(s[0]&mask) << (8 * uint(l))
	if l > 0 && v < uint64(1)<<(7*uint(l)) {
		return 0, 0, false
	}
	return v, 1 + l, true
}

// ---- adapters ------------------------------------------------------------------------------

type natural struct{ v uint64 }

func (n *natural) Decode(d *types.Decoder) error {
	v, err := d.DecodeInteger()
	n.v = v
	return err
}

type codec struct {
	name string
	enc  func(uint64) []byte
	// dec returns value, consumed (-1 = not reported), accepted
	dec func([]byte) (uint64, int, bool)
}

func codecs() []codec {
	return []codec{
		{"types.DecodeUint", func(x uint64) []byte { b, _ := types.NewEncoder().EncodeUint(x); return b },
			func(b []byte) (uint64, int, bool) { v, err := types.NewDecoder().DecodeUint(b); return v, -1, err == nil }},
		{"types.reader", func(x uint64) []byte {
			e := types.NewEncoder()
			b, err := e.Encode(&encNat{x})
			if err != nil {
				return nil
			}
			return b
		},
			func(b []byte) (uint64, int, bool) {
				var n natural
				c, err := types.NewDecoder().DecodeWithConsumed(b, &n)
				return n.v, c, err == nil
			}},
		{"utilities.U64", func(x uint64) []byte { return utilities.SerializeU64(types.U64(x)) },
			func(b []byte) (uint64, int, bool) { v, err := utilities.DeserializeU64(b); return uint64(v), -1, err == nil }},
		{"PVM.ReadUintVariable", nil,
			func(b []byte) (uint64, int, bool) {
				v, n, ex := PVM.ReadUintVariable(b)
				return v, n, ex == PVM.ExitContinue
			}},
		{"telemetry.Natural", telemetry.EncodeNatural,
			func(b []byte) (uint64, int, bool) {
				d := telemetry.NewDecoder(b)
				v, err := d.ReadNatural()
				return v, d.Pos(), err == nil
			}},
		{"fuzz.compact", fuzz.VerifCompactEncode,
			func(b []byte) (uint64, int, bool) { v, n := fuzz.VerifCompactDecode(b); return v, n, n != 0 }},
	}
}

type encNat struct{ v uint64 }

func (n *encNat) Encode(e *types.Encoder) error { return e.EncodeInteger(n.v) }

// ---- monitor -------------------------------------------------------------------------------

// classify names the known-finding class of a decoder divergence (input_class ∧ divergence).
func classify(c codec, s []byte, accepted bool, mok bool) string {
	if accepted && !mok && len(s) >= 9 && s[0] == 0xFF && binary.LittleEndian.Uint64(s[1:9]) < 1<<56 {
		return "C12-F1" // 0xFF-prefixed value below 2^56 accepted
	}
	if accepted && !mok && c.name == "fuzz.compact" {
		if _, _, ok := mDecodeLoose(s); ok {
			return "C12-F2" // compactDecode accepts non-minimal encodings
		}
	}
	return ""
}

// mDecodeLoose: complete (not truncated) but possibly non-minimal
func mDecodeLoose(s []byte) (uint64, int, bool) {
	if len(s) == 0 {
		return 0, 0, false
	}
	l := 0
	for l < 8 && s[0]&(0x80>>uint(l)) != 0 {
		l++
	}
	return 0, 1 + l, len(s) >= 1+l
}

func TestVerifC12(t *testing.T) {
	h := vh.Open(t, "C12")
	defer h.Done()
	cs := codecs()

	checkString := func(stratum string, i int, s []byte) {
		s = append(make([]byte, 0, len(s)), s...) // capacity == length (a prefix of a longer string has spare capacity that hides over-reads)
		mv, mn, mok := mDecode(s)
		for _, c := range cs {
			var v uint64
			var n int
			var ok bool
			p, msg, st := vh.Guard(func() { v, n, ok = c.dec(s) })
			if p {
				h.Viol(stratum, i, "", "decoder-panic", map[string]any{"codec": c.name, "bytes": vh.Hex(s), "panic": msg, "stack": st})
				continue
			}
			switch {
			case ok && !mok:
				h.Viol(stratum, i, classify(c, s, ok, mok), "accepts-noncanonical-or-truncated",
					map[string]any{"codec": c.name, "bytes": vh.Hex(s), "decoded": v, "consumed": n})
			case !ok && mok:
				h.Viol(stratum, i, "", "rejects-canonical", map[string]any{"codec": c.name, "bytes": vh.Hex(s), "model_value": mv})
			case ok && mok:
				if v != mv || (n >= 0 && n != mn) {
					h.Viol(stratum, i, "", "wrong-value-or-length", map[string]any{"codec": c.name, "bytes": vh.Hex(s), "decoded": v, "consumed": n, "model_value": mv, "model_len": mn})
				}
			}
		}
		if mok {
			h.Inc("strings_canonical")
		} else {
			h.Inc("strings_rejectable")
		}
	}

	checkValue := func(stratum string, i int, x uint64) {
		want := mEncode(x)
		for _, c := range cs {
			if c.enc == nil {
				continue
			}
			var got []byte
			p, msg, st := vh.Guard(func() { got = c.enc(x) })
			if p {
				h.Viol(stratum, i, "", "encoder-panic", map[string]any{"codec": c.name, "value": x, "panic": msg, "stack": st})
				continue
			}
			if !bytes.Equal(got, want) {
				h.Viol(stratum, i, "", "encoding-differs", map[string]any{"codec": c.name, "value": x, "got": vh.Hex(got), "model": vh.Hex(want)})
			}
		}
		// decode the canonical string, every proper prefix (must be rejected), and with trailing bytes
		checkString(stratum, i, want)
		for k := 1; k < len(want); k++ {
			checkString(stratum, i, want[:k])
		}
		h.Inc("values")
		h.Distinct("v", x)
	}

	// stratum A: exhaustive byte strings of length 1..3 (split among shards by first byte)
	idx := 0
	for b0 := 0; b0 < 256; b0++ {
		if !h.Mine("exh3", b0) {
			continue
		}
		h.CaseLight("exh3", b0)
		checkString("exh3", b0, []byte{byte(b0)})
		for b1 := 0; b1 < 256; b1++ {
			checkString("exh3", b0, []byte{byte(b0), byte(b1)})
			for b2 := 0; b2 < 256; b2++ {
				checkString("exh3", b0, []byte{byte(b0), byte(b1), byte(b2)})
				idx++
			}
		}
		h.Distinct("exh3", b0)
	}
	h.Count("exh3_strings", int64(idx)+int64(idx/256)+int64(idx/65536))

	// stratum B: powers of two ±1
	for k := 0; k < 64; k++ {
		if !h.Mine("pow2", k) {
			continue
		}
		h.CaseLight("pow2", k)
		p := uint64(1) << uint(k)
		checkValue("pow2", k, p-1)
		checkValue("pow2", k, p)
		checkValue("pow2", k, p+1)
	}
	if h.Mine("pow2", 64) {
		checkValue("pow2", 64, ^uint64(0))
	}

	// stratum C: random values, random longer strings (length 4..10), 9-byte 0xFF strings
	n := h.N(200000, 3000000)
	for i := 0; i < n; i++ {
		if !h.Mine("rand", i) {
			continue
		}
		h.CaseLight("rand", i)
		r := h.Rng("rand", i)
		switch i % 4 {
		case 0:
			checkValue("rand", i, r.U64())
		case 1:
			checkValue("rand", i, r.Uint64()>>uint(r.IntN(64)))
		case 2:
			// arbitrary string with a biased first byte (every length class), random tail
			l := r.IntN(9)
			first := byte(0xFF << uint(8-l))
			if l < 8 {
				first |= byte(r.IntN(1 << uint(7-l)))
			}
			s := append([]byte{first}, r.Bytes(r.IntN(10))...)
			// bias towards small payloads (non-minimal)
			if r.Bool() {
				for k := 1 + r.IntN(3); k < len(s); k++ {
					s[k] = 0
				}
				if r.Bool() && l < 8 {
					s[0] = byte(0xFF << uint(8-l))
				}
			}
			checkString("rand", i, s)
			h.Distinct("s", s)
		case 3:
			s := make([]byte, 9)
			s[0] = 0xFF
			binary.LittleEndian.PutUint64(s[1:], r.U64())
			checkString("rand", i, s)
			h.Distinct("s", s)
		}
	}
	h.Sample(map[string]any{"value": uint64(1) << 21, "model_encoding": vh.Hex(mEncode(1 << 21)), "codecs": fmt.Sprint(len(cs))})
	h.Sample(map[string]any{"string": "ff0100000000000000", "model": "reject (value 1 < 2^56 behind 0xFF)"})
}
