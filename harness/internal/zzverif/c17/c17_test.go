// C17 — state export/import round trip (DESIGN §2 C17).
//
// Monitor: for every generated full state S and permutation π of T(S) = StateEncoder(S):
//
//	(S', raw) = StateKeyValsToState(π(T(S)))            must not fail
//	set(raw ++ StateEncoder(S')) == set(T(S))           key → value, no duplicate key on either side
//	root(raw ++ StateEncoder(S')) == root(T(S)) == reftrie root of the set
//
// plus an export model written from GP D.1/D.2 (service keys C(255,s), C(s, E4(2^32-1)‖k), C(s, E4(2^32-2)‖h),
// C(s, E4(l)‖h)) that the δ part of T(S) must equal, so that a key mis-construction present on both the export
// and the import side is still seen. The second half drives the node path: FuzzServiceStub.SetState followed by
// GetState of the same header must hand back exactly the key-values it was given and report the model's root.
package c17

import (
	"bytes"
	"encoding/binary"
	"fmt"
	"runtime"
	"sort"
	"testing"

	"github.com/New-JAMneration/JAM-Protocol/internal/fuzz"
	"github.com/New-JAMneration/JAM-Protocol/internal/types"
	"github.com/New-JAMneration/JAM-Protocol/internal/utilities/hash"
	m "github.com/New-JAMneration/JAM-Protocol/internal/utilities/merklization"
	"github.com/New-JAMneration/JAM-Protocol/internal/zzverif/reftrie"
	"github.com/New-JAMneration/JAM-Protocol/internal/zzverif/vgen"
	"github.com/New-JAMneration/JAM-Protocol/internal/zzverif/vh"
	"golang.org/x/crypto/blake2b"
)

// ---- model of the service part of D.1 / D.2 -----------------------------------------------------------------------

func keyServiceInfo(s uint32) (k types.StateKey) {
	var n [4]byte
	binary.LittleEndian.PutUint32(n[:], s)
	k[0] = 255
	k[1], k[3], k[5], k[7] = n[0], n[1], n[2], n[3]
	return
}

func keyServiceHash(s uint32, h []byte) (k types.StateKey) {
	var n [4]byte
	binary.LittleEndian.PutUint32(n[:], s)
	a := blake2b.Sum256(h)
	k[0], k[2], k[4], k[6] = n[0], n[1], n[2], n[3]
	k[1], k[3], k[5], k[7] = a[0], a[1], a[2], a[3]
	copy(k[8:], a[4:27])
	return
}

func le32(x uint32) []byte { var b [4]byte; binary.LittleEndian.PutUint32(b[:], x); return b[:] }

func keyStorage(s uint32, key []byte) types.StateKey {
	return keyServiceHash(s, append(le32(0xFFFFFFFF), key...))
}
func keyPreimage(s uint32, h types.OpaqueHash) types.StateKey {
	return keyServiceHash(s, append(le32(0xFFFFFFFE), h[:]...))
}
func keyLookup(s uint32, h types.OpaqueHash, l uint32) types.StateKey {
	return keyServiceHash(s, append(le32(l), h[:]...))
}

// natural-number encoding (GP C.6), for the lookup value ↕[E4(t)…]
func encNat(x uint64) []byte {
	if x < 1<<7 {
		return []byte{byte(x)}
	}
	for l := 1; l <= 7; l++ {
		if x < uint64(1)<<(7*uint(l+1)) {
			out := []byte{byte(256 - (1 << uint(8-l)) + int(x>>(8*uint(l))))}
			for i := 0; i < l; i++ {
				out = append(out, byte(x>>(8*uint(i))))
			}
			return out
		}
	}
	out := []byte{255}
	for i := 0; i < 8; i++ {
		out = append(out, byte(x>>(8*uint(i))))
	}
	return out
}

func modelDelta(delta types.ServiceAccountState) map[types.StateKey][]byte {
	out := map[types.StateKey][]byte{}
	for id, acc := range delta {
		s := uint32(id)
		out[keyServiceInfo(s)] = nil // value not modelled (the ServiceInfo codec is C11's subject); presence is
		for k, v := range acc.StorageDict {
			out[keyStorage(s, []byte(k))] = v
		}
		for h, v := range acc.PreimageLookup {
			out[keyPreimage(s, h)] = v
		}
		for lk, ts := range acc.LookupDict {
			val := encNat(uint64(len(ts)))
			for _, t := range ts {
				val = append(val, le32(uint32(t))...)
			}
			out[keyLookup(s, lk.Hash, uint32(lk.Length))] = val
		}
	}
	return out
}

// ---- generator --------------------------------------------------------------------------------------------------

type genInfo struct {
	services, storage, preimages, lookupsMatched, lookupsOrphan, lookupsWrongLen int
}

func genState(r vh.R, h *vh.H) (types.State, genInfo) {
	var s types.State
	var gi genInfo
	// the 16 components, each resampled until the repository's own encoder accepts it (its validation is the
	// definition of the well-formed domain; C11 covers the codec of each component)
	comp := []any{&s.Alpha, &s.Varphi, &s.Beta, &s.Gamma, &s.Psi, &s.Eta, &s.Iota, &s.Kappa, &s.Lambda, &s.Rho, &s.Tau, &s.Chi, &s.Pi,
		&s.Vartheta, &s.Theta, &s.Xi}
	for _, c := range comp {
		for try := 0; ; try++ {
			vgen.Fill(r, c)
			e := types.NewEncoder()
			if _, err := e.Encode(c); err == nil {
				break
			}
			h.Inc("component_resampled_encoder_rejects")
			if try > 50 {
				break
			}
		}
	}
	s.Delta = types.ServiceAccountState{}
	ns := r.IntN(9)
	ids := []uint32{0, 1, 255, 256, 65535, 65536, 1 << 24, 0x01020304, 0xFFFFFFFE, 0xFFFFFFFF, 0xFF, 0xFF00, 0xFF0000, 0xFF000000}
	for len(s.Delta) < ns {
		var id uint32
		if r.Bool() {
			id = ids[r.IntN(len(ids))]
		} else {
			id = r.Uint32()
		}
		if _, ok := s.Delta[types.ServiceID(id)]; ok {
			continue
		}
		acc := types.ServiceAccount{PreimageLookup: types.PreimagesMapEntry{}, LookupDict: types.LookupMetaMapEntry{}, StorageDict: types.Storage{}}
		vgen.Fill(r, &acc.ServiceInfo)
		acc.ServiceInfo.Version = types.ServiceInfoVersion
		for i, n := 0, r.IntN(7); i < n; i++ {
			k := r.Bytes([]int{0, 1, 4, 31, 32, 33, 40}[r.IntN(7)])
			if r.IntN(6) == 0 && i > 0 { // a key that is a prefix / extension of an earlier one
				for ek := range acc.StorageDict {
					k = append([]byte(ek), 0)
					break
				}
			}
			acc.StorageDict[string(k)] = types.ByteSequence(r.Bytes([]int{0, 1, 31, 32, 33, 64, 200}[r.IntN(7)]))
			gi.storage++
		}
		for i, n := 0, r.IntN(5); i < n; i++ {
			v := types.ByteSequence(r.Bytes([]int{0, 1, 32, 33, 100, 1000}[r.IntN(6)]))
			if r.IntN(8) == 0 { // a preimage whose content is the encoding of a time-slot list (looks like a lookup value)
				v = types.ByteSequence{1, 5, 0, 0, 0}
			}
			hv := hash.Blake2bHash(v)
			acc.PreimageLookup[hv] = v
			gi.preimages++
			switch r.IntN(4) {
			case 0: // preimage without lookup entry
			case 1: // lookup entry of another length for the same hash: cannot be attributed, stays raw on import
				acc.LookupDict[types.LookupMetaMapkey{Hash: hv, Length: types.U32(len(v) + 1 + r.IntN(3))}] = genSlots(r)
				gi.lookupsWrongLen++
			default:
				acc.LookupDict[types.LookupMetaMapkey{Hash: hv, Length: types.U32(len(v))}] = genSlots(r)
				gi.lookupsMatched++
			}
		}
		for i, n := 0, r.IntN(3); i < n; i++ { // solicited but not provided: no preimage
			var hv types.OpaqueHash
			copy(hv[:], r.Bytes(32))
			acc.LookupDict[types.LookupMetaMapkey{Hash: hv, Length: types.U32(r.U32())}] = genSlots(r)
			gi.lookupsOrphan++
		}
		s.Delta[types.ServiceID(id)] = acc
	}
	gi.services = len(s.Delta)
	return s, gi
}

func genSlots(r vh.R) types.TimeSlotSet {
	n := r.IntN(4)
	out := make(types.TimeSlotSet, n) // an empty record is non-nil ([] = solicited, not provided)
	for i := range out {
		out[i] = types.TimeSlot(r.U32())
	}
	return out
}

// ---- oracle helpers ---------------------------------------------------------------------------------------------

func toMap(kvs types.StateKeyVals) (map[types.StateKey][]byte, int) {
	mp := make(map[types.StateKey][]byte, len(kvs))
	dup := 0
	for _, kv := range kvs {
		if _, ok := mp[kv.Key]; ok {
			dup++
		}
		mp[kv.Key] = kv.Value
	}
	return mp, dup
}

func diffMaps(a, b map[types.StateKey][]byte) string {
	var out []string
	for k, v := range a {
		w, ok := b[k]
		switch {
		case !ok:
			out = append(out, fmt.Sprintf("missing %x (len %d)", k[:], len(v)))
		case !bytes.Equal(v, w):
			out = append(out, fmt.Sprintf("value of %x differs (len %d vs %d)", k[:], len(v), len(w)))
		}
	}
	for k, w := range b {
		if _, ok := a[k]; !ok {
			out = append(out, fmt.Sprintf("extra %x (len %d)", k[:], len(w)))
		}
	}
	sort.Strings(out)
	if len(out) > 4 {
		out = append(out[:4], fmt.Sprintf("… %d more", len(out)-4))
	}
	return fmt.Sprint(out)
}

func modelRoot(mp map[types.StateKey][]byte) [32]byte {
	kvs := make([]reftrie.KV, 0, len(mp))
	for k, v := range mp {
		kvs = append(kvs, reftrie.KV{Key: [31]byte(k), Value: v})
	}
	return reftrie.Root(kvs)
}

func describe(s types.State, gi genInfo) map[string]any {
	return map[string]any{"services": gi.services, "storage_entries": gi.storage, "preimages": gi.preimages,
		"lookups_with_preimage": gi.lookupsMatched, "lookups_without_preimage": gi.lookupsOrphan, "lookups_other_length": gi.lookupsWrongLen}
}

func TestVerifC17(t *testing.T) {
	h := vh.Open(t, "C17")
	defer h.Done()
	n := h.N(3000, 60000)
	for ci := 0; ci < n; ci++ {
		if !h.Mine("state", ci) {
			continue
		}
		r := h.Rng("state", ci)
		full := ci%40 == 39
		if full {
			types.SetFullMode()
		} else {
			types.SetTinyMode()
		}
		S, gi := genState(r, h)
		d := describe(S, gi)
		d["full_params"] = full
		h.Case("state", ci, "", d)

		var kv0 types.StateKeyVals
		var err error
		if pn, msg, st := vh.Guard(func() { kv0, err = m.StateEncoder(S) }); pn || err != nil {
			d["panic"], d["stack"], d["err"] = msg, st, fmt.Sprint(err)
			h.Viol("state", ci, "", "export fails on a well-formed state", d)
			continue
		}
		mp0, dup0 := toMap(kv0)
		if dup0 > 0 {
			d["duplicates"] = dup0
			h.Viol("state", ci, "", "export: duplicate key in the serialised state", d)
			continue
		}
		for i := 1; i < len(kv0); i++ {
			if bytes.Compare(kv0[i-1].Key[:], kv0[i].Key[:]) >= 0 {
				h.Viol("state", ci, "", "export: key-values not in ascending key order", d)
				break
			}
		}
		// export model for the service part
		want := modelDelta(S.Delta)
		bad := ""
		cnt := 0
		for k, v := range mp0 {
			isComp := true
			for i := 1; i < 31; i++ {
				if k[i] != 0 {
					isComp = false
				}
			}
			if isComp && k[0] >= 1 && k[0] <= 16 {
				continue
			}
			cnt++
			w, ok := want[k]
			if !ok {
				bad = fmt.Sprintf("exported key %x is not a key of the model", k[:])
			} else if w != nil && !bytes.Equal(w, v) {
				bad = fmt.Sprintf("value under %x differs from the model (len %d vs %d)", k[:], len(v), len(w))
			} else if w == nil && k[0] != 255 {
				bad = fmt.Sprintf("model has no value for %x", k[:])
			}
		}
		if bad == "" && cnt != len(want) {
			bad = fmt.Sprintf("%d service key-values exported, model has %d", cnt, len(want))
		}
		if bad != "" {
			d["difference"] = bad
			h.Viol("state", ci, "", "export: service key-values differ from the D.1/D.2 model", d)
			continue
		}
		root0 := m.MerklizationSerializedState(append(types.StateKeyVals(nil), kv0...))
		if mr := modelRoot(mp0); root0 != types.StateRoot(mr) {
			h.Viol("state", ci, "", "root of the exported key-values differs from the trie model", d)
		}
		if mr := m.MerklizationState(S); mr != root0 {
			h.Viol("state", ci, "", "MerklizationState differs from the root of StateEncoder's output", d)
		}

		ok := true
		for p := 0; p < 4 && ok; p++ {
			var in types.StateKeyVals
			switch p {
			case 0:
				in = append(in, kv0...)
			case 1:
				for i := len(kv0) - 1; i >= 0; i-- {
					in = append(in, kv0[i])
				}
			default:
				in = vh.Shuffled(r, kv0)
			}
			// deep copy so that aliasing into the caller's buffers cannot hide or fake anything
			for i := range in {
				in[i].Value = append(types.ByteSequence{}, in[i].Value...)
			}
			var S2 types.State
			var raw types.StateKeyVals
			if pn, msg, st := vh.Guard(func() { S2, raw, err = m.StateKeyValsToState(in) }); pn || err != nil {
				d["panic"], d["stack"], d["err"], d["perm"] = msg, st, fmt.Sprint(err), p
				h.Viol("state", ci, "", "import fails on the exported key-values of a well-formed state", d)
				ok = false
				break
			}
			var kv1 types.StateKeyVals
			if pn, msg, st := vh.Guard(func() { kv1, err = m.StateEncoder(S2) }); pn || err != nil {
				d["panic"], d["stack"], d["err"], d["perm"] = msg, st, fmt.Sprint(err), p
				h.Viol("state", ci, "", "re-export of the imported state fails", d)
				ok = false
				break
			}
			all := append(append(types.StateKeyVals{}, raw...), kv1...)
			mp1, dup1 := toMap(all)
			if dup1 > 0 {
				d["duplicates"], d["perm"] = dup1, p
				h.Viol("state", ci, "", "round trip: a key appears both in the re-exported state and in the raw entries (or twice)", d)
				ok = false
				break
			}
			if df := diffMaps(mp0, mp1); df != "[]" {
				d["difference"], d["perm"] = df, p
				h.Viol("state", ci, "", "round trip: key-value set differs from the original", d)
				ok = false
				break
			}
			if r1 := m.MerklizationSerializedState(all); r1 != root0 {
				d["perm"] = p
				h.Viol("state", ci, "", "round trip: state root differs", d)
				ok = false
				break
			}
			// observations (not judged): how the import attributed the service entries
			if p == 0 {
				h.Count("raw_entries_after_import", int64(len(raw)))
				pre, lk := 0, 0
				for _, a := range S2.Delta {
					pre += len(a.PreimageLookup)
					lk += len(a.LookupDict)
				}
				h.Count("preimages_attributed", int64(pre))
				h.Count("lookups_attributed", int64(lk))
				// the sixteen components and the service infos must come back as the same values
				c0, c1 := S, S2
				c0.Delta, c1.Delta = nil, nil
				if !vgen.Equal(c0, c1) {
					d["first_difference"] = vgen.Diff(c0, c1, "State")
					h.Viol("state", ci, "", "imported components differ from the original although the bytes are equal", d)
				}
			}
			h.Inc("round_trips")
		}
		h.Count("services", int64(gi.services))
		h.Count("storage_entries", int64(gi.storage))
		h.Count("preimages", int64(gi.preimages))
		h.Count("lookups_with_preimage", int64(gi.lookupsMatched))
		h.Count("lookups_without_preimage", int64(gi.lookupsOrphan))
		h.Count("lookups_other_length", int64(gi.lookupsWrongLen))
		if full {
			h.Inc("full_params")
		}
		if gi.services > 0 {
			h.Distinct(root0[:])
		}
		if ci < 2 {
			d["root"] = vh.Hex(root0[:])
			d["key_values"] = len(kv0)
			h.Sample(d)
		}
	}
	types.SetTinyMode()

	// ---- node path: SetState then GetState ------------------------------------------------------------------------
	svc := &fuzz.FuzzServiceStub{}
	nn := h.N(400, 8000)
	for ci := 0; ci < nn; ci++ {
		if !h.Mine("node", ci) {
			continue
		}
		r := h.Rng("node", ci)
		types.SetTinyMode()
		S, gi := genState(r, h)
		d := describe(S, gi)
		h.Case("node", ci, "", d)
		kv0, err := m.StateEncoder(S)
		if err != nil {
			continue
		}
		mp0, _ := toMap(kv0)
		in := vh.Shuffled(r, kv0)
		for i := range in {
			in[i].Value = append(types.ByteSequence{}, in[i].Value...)
		}
		var hdr types.Header
		hdr.Slot = types.TimeSlot(r.IntN(1000))
		copy(hdr.Parent[:], r.Bytes(32))
		var root types.StateRoot
		var back types.StateKeyVals
		hh, _ := hash.ComputeBlockHeaderHash(hdr)
		if pn, msg, st := vh.Guard(func() {
			root, err = svc.SetState(hdr, in, nil)
			if err == nil {
				back, err = svc.GetState(types.HeaderHash(hh))
			}
		}); pn || err != nil {
			d["panic"], d["stack"], d["err"] = msg, st, fmt.Sprint(err)
			h.Viol("node", ci, "", "SetState/GetState fails on the exported key-values of a well-formed state", d)
			continue
		}
		if mr := modelRoot(mp0); root != types.StateRoot(mr) {
			h.Viol("node", ci, "", "SetState reports a root that differs from the trie model of the key-values it was given", d)
			continue
		}
		mp1, dup := toMap(back)
		if dup > 0 {
			h.Viol("node", ci, "", "GetState returns a duplicate key", d)
			continue
		}
		if df := diffMaps(mp0, mp1); df != "[]" {
			d["difference"] = df
			h.Viol("node", ci, "", "GetState after SetState does not return the key-values that were set", d)
			continue
		}
		h.Inc("node_round_trips")
		if gi.services > 0 {
			h.Distinct("node", root[:])
		}
	}
}

// ---- parallel export (race build) ---------------------------------------------------------------------------------
//
// StateEncoder encodes the service accounts in a worker pool (types.MaxWorkers) and collects the results under a mutex. The
// export of one state must be the same key->value set whatever the pool size and the goroutine scheduling; the race
// detector watches the pool while states with many services are exported.
func TestVerifC17Par(t *testing.T) {
	h := vh.Open(t, "C17")
	defer h.Done()
	types.SetTinyMode()
	defW := types.MaxWorkers
	defer func() { types.MaxWorkers = defW }()
	n := h.N(120, 1200)
	for ci := 0; ci < n; ci++ {
		if !h.Mine("par", ci) {
			continue
		}
		r := h.Rng("par", ci)
		S, gi := genState(r, h)
		for k, want := 0, 8+r.IntN(40); len(S.Delta) < want && k < 40; k++ { // many services: merge several generated sets
			S2, g2 := genState(r, h)
			for id, a := range S2.Delta {
				if _, ok := S.Delta[id]; !ok {
					S.Delta[id] = a
				}
			}
			gi.storage += g2.storage
		}
		gi.services = len(S.Delta)
		d := describe(S, gi)
		h.Case("par", ci, "", d)
		types.MaxWorkers = 1
		ref, err := m.StateEncoder(S)
		if err != nil {
			d["err"] = err.Error()
			h.Viol("par", ci, "", "export fails on a well-formed state", d)
			continue
		}
		refMap, _ := toMap(ref)
		for k, w := range []int{2, 3, 8, 64, 2, 64} {
			types.MaxWorkers = w
			old := runtime.GOMAXPROCS([]int{16, 4, 2}[k%3])
			got, err := m.StateEncoder(S)
			runtime.GOMAXPROCS(old)
			if err != nil {
				d["err"], d["max_workers"] = err.Error(), w
				h.Viol("par", ci, "", "export fails with another worker limit", d)
				break
			}
			gm, dup := toMap(got)
			if diff := diffMaps(refMap, gm); diff != "[]" || dup > 0 || len(got) != len(ref) {
				d["difference"], d["max_workers"], d["duplicates"] = diff, w, dup
				h.Viol("par", ci, "", "the export of one state depends on the worker limit / scheduling", d)
				break
			}
			h.Inc("parallel_exports_compared")
		}
		h.Count("services_exported_in_parallel", int64(len(S.Delta)))
		h.Distinct(len(S.Delta), len(ref))
	}
}
