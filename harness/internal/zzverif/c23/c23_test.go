// C23 — ticket accumulator and slot-sealer sequence (DESIGN §2 C23).
//
// Block histories over several epochs are driven through safrole.OuterUsedSafrole() on the blockchain singleton (set up as
// jamtests/safrole does: prior τ, η, γ, κ, λ, ι; posterior τ'; the block with its entropy source and ticket extrinsic).
// Ticket envelopes carry ring signatures made with the deterministic VRF stand-in, so every (validator, attempt, η2')
// has a ticket identifier the model can compute. A model written from GP 6.2–6.34 decides acceptance and the posterior
// accumulator, sealer sequence, entropy and key sets; the history continues from the model's state.
package c23

import (
	"bytes"
	"crypto/sha256"
	"encoding/binary"
	"fmt"
	"sort"
	"testing"

	"github.com/New-JAMneration/JAM-Protocol/internal/blockchain"
	"github.com/New-JAMneration/JAM-Protocol/internal/safrole"
	"github.com/New-JAMneration/JAM-Protocol/internal/types"
	"github.com/New-JAMneration/JAM-Protocol/internal/zzverif/vh"
	vrf "github.com/New-JAMneration/JAM-Protocol/pkg/Rust-VRF/vrf-func-ffi/src"
	"golang.org/x/crypto/blake2b"
)

type key struct {
	sk []byte
	v  types.Validator
}

func mkKey(tag string, i int) key {
	sk := sha256.Sum256([]byte(fmt.Sprintf("c23-%s-%d", tag, i)))
	pk, _ := vrf.GetPublicKeyFromSecret(sk[:])
	var k key
	k.sk = sk[:]
	copy(k.v.Bandersnatch[:], pk)
	k.v.Ed25519[0], k.v.Ed25519[1] = byte(i), byte(len(tag))
	copy(k.v.Ed25519[2:], sk[:8])
	return k
}

func vdata(ks []key) types.ValidatorsData {
	out := make(types.ValidatorsData, len(ks))
	for i, k := range ks {
		out[i] = k.v
	}
	return out
}

type state struct {
	tau                 int
	eta                 [4]types.Entropy
	iota, gk, kappa, la []key
	ga                  []types.TicketBody
	gsTickets           []types.TicketBody
	gsKeys              []types.BandersnatchPublic
}

func ticketCtx(eta2 types.Entropy, attempt uint64) []byte {
	c := append([]byte(types.JamTicketSeal), eta2[:]...)
	return append(c, byte(attempt))
}

func ticketID(k key, eta2 types.Entropy, attempt uint64) (id types.TicketID) {
	copy(id[:], vrf.Output(k.v.Bandersnatch[:], ticketCtx(eta2, attempt)))
	return
}

func envelope(k key, eta2 types.Entropy, attempt uint64) types.TicketEnvelope {
	var e types.TicketEnvelope
	e.Attempt = types.TicketAttempt(attempt)
	copy(e.Signature[:], vrf.RingSign(k.sk, ticketCtx(eta2, attempt), nil))
	return e
}

func outsideIn(a []types.TicketBody) []types.TicketBody {
	out := make([]types.TicketBody, 0, len(a))
	for i, j := 0, len(a)-1; i <= j; i, j = i+1, j-1 {
		out = append(out, a[i])
		if i != j {
			out = append(out, a[j])
		}
	}
	return out
}

func fallback(eta2 types.Entropy, kappa []key, E int) []types.BandersnatchPublic {
	out := make([]types.BandersnatchPublic, E)
	for i := 0; i < E; i++ {
		var le [4]byte
		binary.LittleEndian.PutUint32(le[:], uint32(i))
		hsh := blake2b.Sum256(append(append([]byte{}, eta2[:]...), le[:]...))
		out[i] = kappa[int(binary.LittleEndian.Uint32(hsh[:4]))%len(kappa)].v.Bandersnatch
	}
	return out
}

func sameTickets(a, b []types.TicketBody) bool {
	if len(a) != len(b) {
		return false
	}
	for i := range a {
		if a[i] != b[i] {
			return false
		}
	}
	return true
}

func showTickets(a []types.TicketBody) string {
	var s []string
	for _, t := range a {
		s = append(s, fmt.Sprintf("%x/%d", t.ID[:3], t.Attempt))
	}
	return fmt.Sprint(s)
}

func TestVerifC23(t *testing.T) {
	h := vh.Open(t, "C23")
	defer h.Done()
	n := h.N(250, 5000)
	for ci := 0; ci < n; ci++ {
		if !h.Mine("hist", ci) {
			continue
		}
		h.CaseLight("hist", ci)
		full := h.Thorough() && ci%100 == 99
		if full {
			types.SetFullMode()
		} else {
			types.SetTinyMode()
		}
		history(h, ci, h.Rng("hist", ci), full)
	}
	types.SetTinyMode()
}

func history(h *vh.H, ci int, r vh.R, full bool) {
	V, E, Y, N, K := types.ValidatorsCount, types.EpochLength, types.SlotSubmissionEnd, types.TicketsPerValidator, types.MaxTicketsPerBlock
	gen := 0
	mk := func(tag string) []key {
		out := make([]key, V)
		for i := range out {
			out[i] = mkKey(fmt.Sprintf("%s-%d-%d", tag, ci%5, gen), i)
		}
		gen++
		return out
	}
	// every fourth history lives high up in the 32-bit slot range (an epoch-aligned offset near 2^16, 2^31 or just below 2^32): slot
	// arithmetic narrowed to 16 or 31 bits, or signed, goes wrong only there
	hiBase := 0
	if r.IntN(4) == 0 {
		hiBase = []int{(1 << 16) / E, (1<<16)/E - 1, (1 << 31) / E, (1<<31)/E - 1, (1<<32)/E - 60}[r.IntN(5)] * E
		h.Inc("histories_high_in_the_slot_range")
	}
	st := state{tau: hiBase + E*(1+r.IntN(3)) + r.IntN(3)}
	st.iota, st.gk, st.kappa, st.la = mk("i"), mk("g"), mk("k"), mk("l")
	if r.Bool() { // the usual situation: the same validators everywhere
		st.gk, st.kappa, st.la = st.iota, st.iota, st.iota
	}
	for i := range st.eta {
		copy(st.eta[i][:], r.Bytes(32))
	}
	st.gsKeys = fallback(st.eta[2], st.kappa, E)
	blocks := 3*E + r.IntN(2*E)
	if full {
		blocks = 4
	}
	used := map[types.TicketID]bool{} // identifiers already submitted in the current epoch
	var trace []string
	lastEpoch := st.tau / E
	// every second history continues from the slices the node itself holds, as a running node does: after an accepted block the
	// posterior accumulator / sealer tickets as returned (with whatever spare capacity they have), after a rejected block the very
	// slices that were handed in. Every second block of such a history the accumulator is handed in with spare capacity (the same
	// value). A transition that writes through its prior state shows up at the next block. (Chosen from ci and b: no PRNG draws.)
	carry := ci%2 == 1
	var implGA types.TicketsAccumulator
	var implGS []types.TicketBody
	haveImpl := false
	for b := 0; b < blocks; b++ {
		gap := 1
		switch r.IntN(14) {
		case 0:
			gap = 2 + r.IntN(3)
		case 1:
			gap = E - st.tau%E // first slot of the next epoch
		case 2:
			if Y > st.tau%E {
				gap = Y - st.tau%E // lands exactly on the end of the submission window
			}
		case 3:
			gap = E + r.IntN(E) // skips (at least) a whole epoch
		}
		if gap < 1 {
			gap = 1
		}
		tauP := st.tau + gap
		badSlot := r.IntN(40) == 0
		if badSlot {
			tauP = st.tau - r.IntN(2)
		}
		e, m := st.tau/E, st.tau%E
		eP, mP := tauP/E, tauP%E
		// ---- model: entropy, keys, sealer sequence -------------------------------------------------------------------------
		var hv types.BandersnatchVrfSignature
		copy(hv[:], r.Bytes(len(hv)))
		want := st
		want.tau = tauP
		y := hv[:32]
		want.eta[0] = blake2b.Sum256(append(append([]byte{}, st.eta[0][:]...), y...))
		if eP > e {
			want.eta[1], want.eta[2], want.eta[3] = st.eta[0], st.eta[1], st.eta[2]
			want.gk, want.kappa, want.la = st.iota, st.gk, st.kappa
		}
		switch {
		case eP == e+1 && m >= Y && len(st.ga) == E:
			want.gsTickets, want.gsKeys = outsideIn(st.ga), nil
		case eP == e:
		default:
			want.gsTickets, want.gsKeys = nil, fallback(want.eta[2], want.kappa, E)
		}
		// ---- the ticket extrinsic ------------------------------------------------------------------------------------------------
		if eP != lastEpoch {
			used = map[types.TicketID]bool{}
		}
		carried := st.ga
		if eP > e {
			carried = nil
		}
		inAcc := map[types.TicketID]bool{}
		for _, tk := range carried {
			inAcc[tk.ID] = true
		}
		type cand struct {
			env types.TicketEnvelope
			id  types.TicketID
			att uint64
		}
		var ext []cand
		nt := r.IntN(K + 1)
		if mP >= Y && r.IntN(4) != 0 {
			nt = 0
		}
		for tries := 0; len(ext) < nt && tries < 200; tries++ {
			vi, att := r.IntN(V), uint64(r.IntN(N))
			id := ticketID(want.gk[vi], want.eta[2], att)
			if used[id] || inAcc[id] {
				continue
			}
			dup := false
			for _, c := range ext {
				dup = dup || c.id == id
			}
			if dup {
				continue
			}
			ext = append(ext, cand{envelope(want.gk[vi], want.eta[2], att), id, att})
		}
		sort.Slice(ext, func(i, j int) bool { return bytes.Compare(ext[i].id[:], ext[j].id[:]) < 0 })
		mutation := "none"
		if r.IntN(4) == 0 && !badSlot {
			switch r.IntN(6) {
			case 0:
				if len(ext) >= 2 {
					i := r.IntN(len(ext) - 1)
					ext[i], ext[i+1] = ext[i+1], ext[i]
					mutation = "unsorted"
				}
			case 1:
				if len(ext) >= 1 && len(ext) < K {
					i := r.IntN(len(ext))
					ext = append(ext[:i+1], append([]cand{ext[i]}, ext[i+1:]...)...)
					mutation = "duplicate in the extrinsic"
				}
			case 2:
				if len(carried) > 0 {
					// re-submit a ticket that is already in the accumulator (made with the same entropy and keys if possible)
					tk := carried[r.IntN(len(carried))]
					for vi := 0; vi < V && mutation == "none"; vi++ {
						if ticketID(want.gk[vi], want.eta[2], uint64(tk.Attempt)) == tk.ID {
							ext = append(ext, cand{envelope(want.gk[vi], want.eta[2], uint64(tk.Attempt)), tk.ID, uint64(tk.Attempt)})
							sort.Slice(ext, func(i, j int) bool { return bytes.Compare(ext[i].id[:], ext[j].id[:]) < 0 })
							mutation = "duplicate of an accumulated ticket"
						}
					}
				}
			case 3:
				vi := r.IntN(V)
				att := uint64(N + r.IntN(3))
				if r.Bool() {
					att = uint64(N) // the first value outside the range
				}
				ext = append(ext, cand{envelope(want.gk[vi], want.eta[2], att), ticketID(want.gk[vi], want.eta[2], att), att})
				sort.Slice(ext, func(i, j int) bool { return bytes.Compare(ext[i].id[:], ext[j].id[:]) < 0 })
				mutation = "attempt out of range"
			case 4:
				if mP >= Y && len(ext) == 0 {
					vi, att := r.IntN(V), uint64(r.IntN(N))
					ext = append(ext, cand{envelope(want.gk[vi], want.eta[2], att), ticketID(want.gk[vi], want.eta[2], att), att})
					mutation = "ticket after the submission window"
				}
			case 5:
				if len(ext) >= 1 {
					outsider := mkKey("outsider", b)
					i := r.IntN(len(ext))
					ext[i].env = envelope(outsider, want.eta[2], ext[i].att)
					mutation = "signed by a key outside the ring"
				}
			}
		}
		// model verdict
		reject := ""
		switch {
		case tauP <= st.tau:
			reject = "slot not after the previous one"
		case mP >= Y && len(ext) > 0:
			reject = "tickets after the submission window"
		}
		if reject == "" {
			for _, c := range ext {
				if c.att >= uint64(N) {
					reject = "attempt out of range"
				}
			}
		}
		if reject == "" && mutation == "signed by a key outside the ring" {
			reject = "bad ring proof"
		}
		if reject == "" {
			for i := 1; i < len(ext); i++ {
				if bytes.Compare(ext[i-1].id[:], ext[i].id[:]) >= 0 {
					reject = "not strictly increasing by identifier"
				}
			}
			for _, c := range ext {
				if inAcc[c.id] {
					reject = "ticket already in the accumulator"
				}
			}
		}
		if reject == "" {
			all := append([]types.TicketBody{}, carried...)
			for _, c := range ext {
				all = append(all, types.TicketBody{ID: c.id, Attempt: types.TicketAttempt(c.att)})
			}
			sort.Slice(all, func(i, j int) bool { return bytes.Compare(all[i].ID[:], all[j].ID[:]) < 0 })
			if len(all) > E {
				all = all[:E]
			}
			want.ga = all
		}
		// ---- implementation --------------------------------------------------------------------------------------------------------
		var errCode *types.ErrorCode
		var post types.State
		var tix types.TicketsExtrinsic
		for _, c := range ext {
			tix = append(tix, c.env)
		}
		gaIn := append(types.TicketsAccumulator{}, st.ga...)
		gsIn := append([]types.TicketBody(nil), st.gsTickets...)
		if carry && haveImpl {
			gaIn, gsIn = implGA, implGS
			h.Inc("blocks_continuing_from_the_node's_own_slices")
		}
		if carry && b%2 == 0 {
			p := make(types.TicketsAccumulator, len(gaIn), len(gaIn)+K+4)
			copy(p, gaIn)
			gaIn = p
		}
		pn, msg, stck := vh.Guard(func() {
			blockchain.ClearVerifierCache()
			blockchain.ResetInstance()
			cs := blockchain.GetInstance()
			ps := cs.GetPriorStates()
			ps.SetTau(types.TimeSlot(st.tau))
			ps.SetEta(types.EntropyBuffer(st.eta))
			ps.SetIota(vdata(st.iota))
			ps.SetKappa(vdata(st.kappa))
			ps.SetLambda(vdata(st.la))
			ps.SetGammaK(vdata(st.gk))
			ps.SetGammaA(gaIn)
			ps.SetGammaS(types.TicketsOrKeys{Tickets: gsIn, Keys: append([]types.BandersnatchPublic(nil), st.gsKeys...)})
			cs.GetPosteriorStates().SetTau(types.TimeSlot(tauP))
			cs.AddBlock(types.Block{Header: types.Header{Slot: types.TimeSlot(tauP), EntropySource: hv}, Extrinsic: types.Extrinsic{Tickets: tix}})
			errCode = safrole.OuterUsedSafrole()
			post = cs.GetPosteriorStates().GetState()
		})
		trace = append(trace, fmt.Sprintf("%d->%d:%d%s", st.tau, tauP, len(ext), map[bool]string{true: "!" + mutation, false: ""}[mutation != "none"]))
		if len(trace) > 12 {
			trace = trace[1:]
		}
		d := map[string]any{"block": b, "tau": st.tau, "tau_prime": tauP, "epoch_change": eP > e, "tickets": len(ext), "mutation": mutation, "model_rejects": reject,
			"accumulator_before": len(st.ga), "continues_from_node_slices": carry && haveImpl, "recent": fmt.Sprint(trace), "validators": V}
		if pn {
			d["panic"], d["stack"] = msg, stck
			h.Viol("hist", ci, "", "safrole transition panicked", d)
			return
		}
		h.Inc("blocks")
		if (errCode != nil) != (reject != "") {
			d["error_code"] = fmt.Sprint(errCode)
			if errCode != nil {
				d["error_code"] = fmt.Sprint(*errCode)
				h.Viol("hist", ci, "", "a block the model accepts is rejected", d)
			} else {
				h.Viol("hist", ci, "", "accepted although: "+reject, d)
			}
			return
		}
		if reject != "" {
			h.Inc("blocks_rejected")
			h.Inc("rejected: " + reject)
			if carry {
				implGA, implGS, haveImpl = gaIn, gsIn, true
				h.Inc("rejected_blocks_whose_prior_slices_are_used_again")
			}
			continue // history goes on from the same prior state
		}
		h.Inc("blocks_accepted")
		// ---- posterior state vs model + invariants ---------------------------------------------------------------------------------
		ga := []types.TicketBody(post.Gamma.GammaA)
		for i := 1; i < len(ga); i++ {
			if bytes.Compare(ga[i-1].ID[:], ga[i].ID[:]) >= 0 {
				h.Viol("hist", ci, "", "accumulator not strictly increasing by identifier", d)
				return
			}
		}
		if len(ga) > E {
			h.Viol("hist", ci, "", "accumulator longer than an epoch", d)
			return
		}
		if !sameTickets(ga, want.ga) {
			d["got"], d["model"] = showTickets(ga), showTickets(want.ga)
			h.Viol("hist", ci, "", "accumulator is not the lowest identifiers of the new and the carried-over tickets", d)
			return
		}
		gs := post.Gamma.GammaS
		if !sameTickets(gs.Tickets, want.gsTickets) || len(gs.Keys) != len(want.gsKeys) {
			d["got_tickets"], d["model_tickets"], d["got_keys"], d["model_keys"] = len(gs.Tickets), len(want.gsTickets), len(gs.Keys), len(want.gsKeys)
			h.Viol("hist", ci, "", "slot-sealer sequence differs from the model (outside-in of a full accumulator / unchanged / fallback keys)", d)
			return
		}
		for i := range gs.Keys {
			if gs.Keys[i] != want.gsKeys[i] {
				d["slot"] = i
				h.Viol("hist", ci, "", "fallback sealer keys differ from the model", d)
				return
			}
		}
		if types.EntropyBuffer(want.eta) != post.Eta {
			h.Viol("hist", ci, "", "entropy accumulator / rotation differs from the model", d)
			return
		}
		for i := 0; i < V; i++ {
			if post.Kappa[i] != want.kappa[i].v || post.Lambda[i] != want.la[i].v || post.Gamma.GammaK[i] != want.gk[i].v {
				h.Viol("hist", ci, "", "validator key rotation differs from the model", d)
				return
			}
		}
		switch {
		case eP == e+1 && m >= Y && len(st.ga) == E:
			h.Inc("epoch_changes_with_ticket_sealers")
		case eP > e:
			h.Inc("epoch_changes_with_fallback_sealers")
		}
		if len(ga) == E {
			h.Inc("blocks_with_full_accumulator")
		}
		if len(ext) > 0 {
			h.Inc("blocks_with_tickets")
			if len(carried)+len(ext) > E {
				h.Inc("blocks_where_tickets_were_pushed_out")
			}
		}
		for _, c := range ext {
			used[c.id] = true
		}
		lastEpoch = eP
		st = want
		if carry {
			implGA, implGS, haveImpl = post.Gamma.GammaA, post.Gamma.GammaS.Tickets, true
		}
	}
	if full {
		h.Inc("histories_full_params")
	}
	h.Distinct(fmt.Sprint(trace), ci)
	if ci < 2 {
		h.Sample(map[string]any{"last_blocks": fmt.Sprint(trace), "validators": V})
	}
}
