package c25

import (
	"bytes"
	"encoding/binary"
	"fmt"
	"sort"
	"testing"

	"github.com/New-JAMneration/JAM-Protocol/internal/blockchain"
	rh "github.com/New-JAMneration/JAM-Protocol/internal/recent_history"
	"github.com/New-JAMneration/JAM-Protocol/internal/types"
	"github.com/New-JAMneration/JAM-Protocol/internal/zzverif/refmerkle"
	"github.com/New-JAMneration/JAM-Protocol/internal/zzverif/vh"
)

type mEntry struct {
	header, beefy, state [32]byte
	reported             [][2][32]byte
}

type mState struct {
	hist  []mEntry
	peaks []*refmerkle.H
}

func (m *mState) step(headerHash, parentStateRoot [32]byte, pkgs [][2][32]byte, accOut []types.AccumulatedServiceHash, H int) {
	if n := len(m.hist); n > 0 {
		m.hist[n-1].state = parentStateRoot
	}
	var s [][]byte
	for _, a := range accOut {
		b := make([]byte, 36)
		binary.LittleEndian.PutUint32(b, uint32(a.ServiceID))
		copy(b[4:], a.Hash[:])
		s = append(s, b)
	}
	root := refmerkle.MB(s, refmerkle.Keccak)
	m.peaks = refmerkle.MMRAppend(m.peaks, root)
	p := append([][2][32]byte(nil), pkgs...)
	sort.Slice(p, func(i, j int) bool { return bytes.Compare(p[i][0][:], p[j][0][:]) < 0 })
	m.hist = append(m.hist, mEntry{header: headerHash, beefy: refmerkle.SuperPeak(m.peaks), reported: p})
	if len(m.hist) > H {
		m.hist = append([]mEntry(nil), m.hist[len(m.hist)-H:]...)
	}
}

func cmpHist(got types.BlocksHistory, want []mEntry) string {
	if len(got) != len(want) {
		return fmt.Sprintf("length %d, model %d", len(got), len(want))
	}
	for i := range got {
		g, w := got[i], want[i]
		if [32]byte(g.HeaderHash) != w.header {
			return fmt.Sprintf("entry %d header hash", i)
		}
		if [32]byte(g.StateRoot) != w.state {
			return fmt.Sprintf("entry %d state root", i)
		}
		if [32]byte(g.BeefyRoot) != w.beefy {
			return fmt.Sprintf("entry %d accumulation-result commitment", i)
		}
		if len(g.Reported) != len(w.reported) {
			return fmt.Sprintf("entry %d reported count %d, model %d", i, len(g.Reported), len(w.reported))
		}
		for k := range g.Reported {
			if [32]byte(g.Reported[k].Hash) != w.reported[k][0] || [32]byte(g.Reported[k].ExportsRoot) != w.reported[k][1] {
				return fmt.Sprintf("entry %d reported[%d] (order or content)", i, k)
			}
		}
	}
	return ""
}

func deepBeta(b types.RecentBlocks) types.RecentBlocks {
	out := types.RecentBlocks{History: make(types.BlocksHistory, len(b.History))}
	for i, e := range b.History {
		out.History[i] = e
		out.History[i].Reported = append([]types.ReportedWorkPackage(nil), e.Reported...)
	}
	out.Mmr.Peaks = make([]types.MmrPeak, len(b.Mmr.Peaks))
	for i, p := range b.Mmr.Peaks {
		if p != nil {
			c := *p
			out.Mmr.Peaks[i] = &c
		}
	}
	return out
}

func TestVerifC25(t *testing.T) {
	h := vh.Open(t, "C25")
	defer h.Done()
	types.SetTinyMode()
	H := types.MaxBlocksHistory
	nh := h.N(400, 6000)
	for ci := 0; ci < nh; ci++ {
		if !h.Mine("hist", ci) {
			continue
		}
		h.CaseLight("hist", ci)
		r := h.Rng("hist", ci)
		C := types.CoresCount
		L := 3*H + r.IntN(8)
		var beta types.RecentBlocks
		model := &mState{}
		carrySame := ci%2 == 0 // carry the very objects forward (as the node does) or deep copies
		// one chain-state instance for the whole history AND left over from the previous history of this process (a node lives on
		// through blocks, forks and restores; its intermediate state is not recreated per block), or a fresh instance per block
		reuse := ci%3 != 0
		if reuse {
			h.Inc("histories_on_a_long_lived_chain_state_instance")
		}
		bad := false
		for b := 0; b < L && !bad; b++ {
			var parentRoot [32]byte
			copy(parentRoot[:], r.Bytes(32))
			ng := r.IntN(C + 1)
			if r.IntN(4) == 0 {
				ng = C + r.IntN(3) // more packages than cores: still sorted and carried
			}
			var eg types.GuaranteesExtrinsic
			var pkgs [][2][32]byte
			prefix := r.Bytes(31)
			for g := 0; g < ng; g++ {
				var hh, ex [32]byte
				copy(hh[:], r.Bytes(32))
				if r.Bool() {
					copy(hh[:31], prefix) // shared 31-byte prefix: order decided by the last byte
				}
				copy(ex[:], r.Bytes(32))
				pkgs = append(pkgs, [2][32]byte{hh, ex})
				eg = append(eg, types.ReportGuarantee{Report: types.WorkReport{PackageSpec: types.WorkPackageSpec{Hash: types.WorkPackageHash(hh), ExportsRoot: types.ExportsRoot(ex)}}})
			}
			na := r.IntN(7)
			acc := make(types.LastAccOut, na)
			for i := range acc {
				acc[i].ServiceID = types.ServiceID(r.U32())
				copy(acc[i].Hash[:], r.Bytes(32))
			}
			hdr := types.Header{Slot: types.TimeSlot(100 + b), ParentStateRoot: types.StateRoot(parentRoot)}
			copy(hdr.Parent[:], r.Bytes(32))
			copy(hdr.ExtrinsicHash[:], r.Bytes(32))
			enc, err := types.NewEncoder().Encode(&hdr)
			if err != nil {
				t.Fatalf("header encode: %v", err)
			}
			hh := refmerkle.Blake(enc)

			prior := beta
			if !carrySame {
				prior = deepBeta(beta)
			}
			snapshot := deepBeta(beta)
			// a discarded sibling first: another block computed on the very same prior-state objects (a candidate that is
			// thrown away, a fork, a block rejected by a later step). The block that follows must not see any trace of it.
			if carrySame && r.IntN(3) == 0 {
				xh := hdr
				xh.Slot++
				copy(xh.ParentStateRoot[:], r.Bytes(32))
				copy(xh.ExtrinsicHash[:], r.Bytes(32))
				var xeg types.GuaranteesExtrinsic
				for g := 0; g < 1+r.IntN(C); g++ {
					var ph [32]byte
					copy(ph[:], r.Bytes(32))
					xeg = append(xeg, types.ReportGuarantee{Report: types.WorkReport{PackageSpec: types.WorkPackageSpec{Hash: types.WorkPackageHash(ph)}}})
				}
				xacc := make(types.LastAccOut, 1+r.IntN(3))
				for i := range xacc {
					xacc[i].ServiceID = types.ServiceID(r.U32())
					copy(xacc[i].Hash[:], r.Bytes(32))
				}
				vh.Guard(func() {
					if !reuse {
						blockchain.ResetInstance()
					}
					cs := blockchain.GetInstance()
					cs.GetPriorStates().SetBeta(prior)
					cs.AddBlock(types.Block{Header: xh, Extrinsic: types.Extrinsic{Guarantees: xeg}})
					cs.GetPosteriorStates().SetLastAccOut(xacc)
					rh.STFBetaH2BetaHDagger()
					rh.STFBetaHDagger2BetaHPrime()
				})
				h.Inc("discarded_sibling_blocks")
				if len(model.hist) == H {
					h.Inc("discarded_sibling_blocks_on_a_full_history")
				}
			}
			var gotH types.BlocksHistory
			var gotB types.Mmr
			p, msg, st := vh.Guard(func() {
				if !reuse {
					blockchain.ResetInstance()
				}
				cs := blockchain.GetInstance()
				cs.GetPriorStates().SetBeta(prior)
				cs.AddBlock(types.Block{Header: hdr, Extrinsic: types.Extrinsic{Guarantees: eg}})
				cs.GetPosteriorStates().SetLastAccOut(acc)
				rh.STFBetaH2BetaHDagger()
				if e := rh.STFBetaHDagger2BetaHPrime(); e != nil {
					panic("STFBetaHDagger2BetaHPrime error: " + e.Error())
				}
				gotH = cs.GetPosteriorStates().GetBeta().History
				gotB = cs.GetPosteriorStates().GetBeta().Mmr
			})
			if p {
				h.Viol("hist", ci, "", "history-stf-panic-or-error", map[string]any{"block": b, "panic": msg, "stack": st})
				bad = true
				break
			}
			model.step(hh, parentRoot, pkgs, acc, H)
			if why := cmpHist(gotH, model.hist); why != "" {
				h.Viol("hist", ci, "", "history-differs-from-model", map[string]any{"block": b, "why": why, "guarantees": ng, "acc_outputs": na, "carry_same_objects": carrySame})
				bad = true
			}
			if len(gotH) > H {
				h.Viol("hist", ci, "", "history-longer-than-H", map[string]any{"block": b, "len": len(gotH)})
			}
			okB := len(gotB.Peaks) == len(model.peaks)
			for i := 0; okB && i < len(model.peaks); i++ {
				okB = (gotB.Peaks[i] == nil) == (model.peaks[i] == nil) && (gotB.Peaks[i] == nil || *gotB.Peaks[i] == types.OpaqueHash(*model.peaks[i]))
			}
			if !okB {
				h.Viol("hist", ci, "", "accumulation-log-mmr-differs-from-model", map[string]any{"block": b})
				bad = true
			}
			_ = snapshot
			h.Inc("blocks")
			if ng > 1 {
				h.Inc("blocks_with_several_packages")
			}
			if len(model.hist) == H && b >= H {
				h.Inc("blocks_dropping_oldest")
			}
			beta = types.RecentBlocks{History: gotH, Mmr: gotB}
		}
		h.Distinct("hist", ci, L)
		if ci < 2 {
			h.Sample(map[string]any{"blocks": L, "final_len": len(model.hist), "newest_header": vh.Hex(model.hist[len(model.hist)-1].header[:])})
		}
	}

	// pure helpers
	np := h.N(5000, 100000)
	for ci := 0; ci < np; ci++ {
		if !h.Mine("pure", ci) {
			continue
		}
		h.CaseLight("pure", ci)
		r := h.Rng("pure", ci)
		n := r.IntN(H + 1)
		hist := make(types.BlocksHistory, n)
		for i := range hist {
			copy(hist[i].HeaderHash[:], r.Bytes(32))
			copy(hist[i].StateRoot[:], r.Bytes(32))
		}
		before := append(types.BlocksHistory(nil), hist...)
		var item types.BlockInfo
		copy(item.HeaderHash[:], r.Bytes(32))
		out := rh.AddItem2BetaHPrime(hist, item)
		want := append(append(types.BlocksHistory(nil), before...), item)
		if len(want) > H {
			want = want[len(want)-H:]
		}
		ok := len(out) == len(want)
		for i := 0; ok && i < len(want); i++ {
			ok = out[i].HeaderHash == want[i].HeaderHash && out[i].StateRoot == want[i].StateRoot
		}
		if !ok {
			h.Viol("pure", ci, "", "AddItem2BetaHPrime-differs", map[string]any{"n": n})
		}
		// MapWorkReportFromEg: sorted by hash, all carried
		ng := r.IntN(6)
		var eg types.GuaranteesExtrinsic
		for g := 0; g < ng; g++ {
			var x types.WorkPackageHash
			copy(x[:], r.Bytes(32))
			x[0] = byte(r.IntN(3))
			eg = append(eg, types.ReportGuarantee{Report: types.WorkReport{PackageSpec: types.WorkPackageSpec{Hash: x}}})
		}
		rep := rh.MapWorkReportFromEg(eg)
		if len(rep) != ng {
			h.Viol("pure", ci, "", "MapWorkReportFromEg-count", map[string]any{"n": ng, "got": len(rep)})
		}
		for i := 1; i < len(rep); i++ {
			if bytes.Compare(rep[i-1].Hash[:], rep[i].Hash[:]) > 0 {
				h.Viol("pure", ci, "", "MapWorkReportFromEg-unsorted", map[string]any{"n": ng})
			}
		}
		h.Inc("pure_cases")
		h.Distinct("pure", ci)
	}
}
