// Package refmerkle holds /verif's independent models of GP E.1 (well-balanced tree) and E.2 (MMR),
// written against x/crypto directly. Not part of the repository.
package refmerkle

import (
	"math/bits"

	"golang.org/x/crypto/blake2b"
	"golang.org/x/crypto/sha3"
)

type H = [32]byte

func Keccak(parts ...[]byte) (out H) {
	k := sha3.NewLegacyKeccak256()
	for _, p := range parts {
		k.Write(p)
	}
	copy(out[:], k.Sum(nil))
	return
}

func Blake(parts ...[]byte) H {
	var b []byte
	for _, p := range parts {
		b = append(b, p...)
	}
	return blake2b.Sum256(b)
}

type HashFn func(parts ...[]byte) H

// N of GP E.1 (returns a blob: the raw element for single-element sequences).
func N(v [][]byte, hf HashFn) []byte {
	switch len(v) {
	case 0:
		return make([]byte, 32)
	case 1:
		return v[0]
	}
	mid := (len(v) + 1) / 2
	h := hf([]byte("node"), N(v[:mid], hf), N(v[mid:], hf))
	return h[:]
}

func MB(v [][]byte, hf HashFn) H {
	if len(v) == 1 {
		return hf(v[0])
	}
	var out H
	copy(out[:], N(v, hf))
	return out
}

// M: constant-depth tree over "leaf"-prefixed hashes padded with zero hashes to a power of two.
func M(v [][]byte, hf HashFn) H {
	sz := 1
	for sz < len(v) {
		sz *= 2
	}
	c := make([][]byte, sz)
	for i := range c {
		if i < len(v) {
			h := hf([]byte("leaf"), v[i])
			c[i] = h[:]
		} else {
			c[i] = make([]byte, 32)
		}
	}
	var out H
	copy(out[:], N(c, hf))
	return out
}

func mountain(items []H, lo, hi int) H {
	if hi-lo == 1 {
		return items[lo]
	}
	mid := (lo + hi) / 2
	l, r := mountain(items, lo, mid), mountain(items, mid, hi)
	return Keccak(l[:], r[:])
}

// MMRPeaks: peak i present iff bit i of len(items); high bits cover the earliest items.
func MMRPeaks(items []H) []*H {
	n := len(items)
	out := make([]*H, bits.Len(uint(n)))
	start := 0
	for i := len(out) - 1; i >= 0; i-- {
		if n&(1<<uint(i)) != 0 {
			p := mountain(items, start, start+(1<<uint(i)))
			out[i] = &p
			start += 1 << uint(i)
		}
	}
	return out
}

// MMRAppend implements GP E.8 on a peak list (nil = empty slot), returning a fresh list.
func MMRAppend(peaks []*H, l H) []*H {
	out := append([]*H(nil), peaks...)
	carry := l
	for pos := 0; ; pos++ {
		if pos >= len(out) {
			c := carry
			return append(out, &c)
		}
		if out[pos] == nil {
			c := carry
			out[pos] = &c
			return out
		}
		carry = Keccak(out[pos][:], carry[:])
		out[pos] = nil
	}
}

func SuperPeak(peaks []*H) H {
	var hs []H
	for _, p := range peaks {
		if p != nil {
			hs = append(hs, *p)
		}
	}
	if len(hs) == 0 {
		return H{}
	}
	acc := hs[0]
	for k := 1; k < len(hs); k++ {
		acc = Keccak([]byte("peak"), acc[:], hs[k][:])
	}
	return acc
}
