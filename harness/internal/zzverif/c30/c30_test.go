// C30 — erasure-coding recovery (DESIGN §2 C30).
//
// The repository's cgo wrapper (pkg/erasure_coding) and its lib.rs run over a stand-in for the third-party Reed-Solomon
// crate (an MDS code over GF(2^16): any k shards determine the data). For every blob and every chosen set of k distinct
// shard indices, in any order:   DecodeShards(shards[idx], idx) == blob ‖ zero padding to a multiple of 2k.
// The systematic part of the encoding (the first k shards) is also compared with the official vectors shipped in the
// repository (tiny_test / full_test), which pins the shard layout independently of the stand-in.
package c30

import (
	"bytes"
	"encoding/hex"
	"encoding/json"
	"fmt"
	"os"
	"os/exec"
	"path/filepath"
	"sort"
	"strings"
	"testing"

	"github.com/New-JAMneration/JAM-Protocol/internal/zzverif/vh"
	erasurecoding "github.com/New-JAMneration/JAM-Protocol/pkg/erasure_coding"
	"sync"
	"sync/atomic"
)

func padded(blob []byte, k int) []byte {
	w := 2 * k
	out := append([]byte(nil), blob...)
	for len(out)%w != 0 {
		out = append(out, 0)
	}
	return out
}

func roundTrip(h *vh.H, stratum string, ci int, blob []byte, k, n int, idx []int, what string) bool {
	d := map[string]any{"blob_len": len(blob), "k": k, "n": n, "subset": what}
	if len(idx) <= 12 {
		d["indices"] = fmt.Sprint(idx)
	}
	var shards [][]byte
	var err error
	if pn, msg, st := vh.Guard(func() { shards, err = erasurecoding.EncodeDataShards(append([]byte(nil), blob...), k, n-k) }); pn || err != nil {
		d["panic"], d["stack"], d["err"] = msg, st, fmt.Sprint(err)
		h.Viol(stratum, ci, "", "encoding fails on a non-empty blob", d)
		return false
	}
	want := padded(blob, k)
	if len(shards) != n || len(shards[0])*k != len(want) {
		d["shards"], d["shard_len"] = len(shards), len(shards[0])
		h.Viol(stratum, ci, "", "encoding: wrong number or size of shards", d)
		return false
	}
	flat := make([]byte, 0, k*len(shards[0]))
	for _, i := range idx {
		flat = append(flat, shards[i]...)
	}
	var out []byte
	if pn, msg, st := vh.Guard(func() {
		out, err = erasurecoding.DecodeShards(flat, append([]int(nil), idx...), k, n-k, len(shards[0]))
	}); pn || err != nil {
		d["panic"], d["stack"], d["err"] = msg, st, fmt.Sprint(err)
		h.Viol(stratum, ci, "", "decoding fails on k distinct valid shards", d)
		return false
	}
	if !bytes.Equal(out, want) {
		d["out_len"], d["want_len"] = len(out), len(want)
		for i := range want {
			if i >= len(out) || out[i] != want[i] {
				d["first_difference_at"] = i
				break
			}
		}
		h.Viol(stratum, ci, "", "recovered data differs from the original blob with zero padding", d)
		return false
	}
	return true
}

func TestVerifC30(t *testing.T) {
	h := vh.Open(t, "C30")
	defer h.Done()

	// ---- tiny parameters: every ordered pair of distinct shards ---------------------------------------------------------------
	nt := h.N(300, 6000)
	for ci := 0; ci < nt; ci++ {
		if !h.Mine("tiny", ci) {
			continue
		}
		r := h.Rng("tiny", ci)
		k, n := 2, 6
		size := []int{1, 2, 3, 4, 5, 7, 8, 9, 4104}[r.IntN(9)]
		if r.Bool() {
			size = 1 + r.IntN(300)
		}
		blob := r.Bytes(size)
		if r.IntN(5) == 0 {
			blob = make([]byte, size) // all zero
			blob[size-1] = byte(r.IntN(2))
		}
		h.Case("tiny", ci, "", map[string]any{"blob_len": size})
		for a := 0; a < n; a++ {
			for b := 0; b < n; b++ {
				if a != b && roundTrip(h, "tiny", ci, blob, k, n, []int{a, b}, "ordered pair") {
					h.Inc("round_trips_tiny")
					if a >= k && b >= k {
						h.Inc("round_trips_from_parity_shards_only")
					}
				}
			}
		}
		h.Distinct("tiny", blob)
	}

	// ---- full parameters -----------------------------------------------------------------------------------------------------
	nf := h.N(48, 1000)
	for ci := 0; ci < nf; ci++ {
		if !h.Mine("full", ci) {
			continue
		}
		r := h.Rng("full", ci)
		k, n := 342, 1023
		size := []int{1, 683, 684, 685, 1367, 1368, 1369, 4104}[r.IntN(8)]
		if r.IntN(3) == 0 {
			size = 1 + r.IntN(20000)
		}
		blob := r.Bytes(size)
		h.Case("full", ci, "", map[string]any{"blob_len": size})
		all := r.Perm(n)
		subsets := map[string][]int{}
		first := make([]int, k)
		last := make([]int, k)
		inter := make([]int, k)
		for i := 0; i < k; i++ {
			first[i], last[i], inter[i] = i, n-1-i, (i*2+ci)%n // stride 2: 342 distinct indices
		}
		sort.Ints(inter)
		subsets["first k (data shards)"] = first
		subsets["last k (parity only)"] = last
		subsets["every second"] = inter
		subsets["random"] = append([]int(nil), all[:k]...)
		sh := append([]int(nil), first...)
		r.Shuffle(len(sh), func(i, j int) { sh[i], sh[j] = sh[j], sh[i] })
		subsets["data shards in shuffled order"] = sh
		mixed := append(append([]int(nil), first[:k/2]...), last[:k-k/2]...)
		r.Shuffle(len(mixed), func(i, j int) { mixed[i], mixed[j] = mixed[j], mixed[i] })
		subsets["half data half parity, shuffled"] = mixed
		var names []string
		for nm := range subsets {
			names = append(names, nm)
		}
		sort.Strings(names)
		for _, nm := range names {
			if roundTrip(h, "full", ci, blob, k, n, subsets[nm], nm) {
				h.Inc("round_trips_full")
				if nm == "last k (parity only)" {
					h.Inc("round_trips_from_parity_shards_only")
				}
			}
		}
		h.Distinct("full", size, blob[:min(len(blob), 16)])
	}

	// ---- official vectors: the systematic part of the encoding ----------------------------------------------------------------
	repo := os.Getenv("VERIF_REPO")
	for _, mode := range []struct {
		dir  string
		k, n int
	}{{"tiny_test", 2, 6}, {"full_test", 342, 1023}} {
		files, _ := filepath.Glob(filepath.Join(repo, "pkg/erasure_coding", mode.dir, "*.json"))
		sort.Strings(files)
		for fi, f := range files {
			if !h.Mine("vectors", fi) {
				continue
			}
			raw, err := os.ReadFile(f)
			if err != nil {
				continue
			}
			var tv struct {
				Data   string   `json:"data"`
				Shards []string `json:"shards"`
			}
			if json.Unmarshal(raw, &tv) != nil || len(tv.Shards) != mode.n {
				continue
			}
			data, _ := hex.DecodeString(strings.TrimPrefix(tv.Data, "0x"))
			if len(data) == 0 {
				continue
			}
			h.Case("vectors", fi, "", map[string]any{"file": filepath.Base(f)})
			shards, err := erasurecoding.EncodeDataShards(append([]byte(nil), data...), mode.k, mode.n-mode.k)
			d := map[string]any{"file": mode.dir + "/" + filepath.Base(f), "data_len": len(data)}
			if err != nil {
				d["err"] = err.Error()
				h.Viol("vectors", fi, "", "encoding fails on an official vector", d)
				continue
			}
			okv := true
			var flat []byte
			idx := make([]int, mode.k)
			for i := 0; i < mode.k; i++ {
				want, _ := hex.DecodeString(strings.TrimPrefix(tv.Shards[i], "0x"))
				if !bytes.Equal(shards[i], want) {
					d["shard"] = i
					h.Viol("vectors", fi, "", "data shard differs from the official vector (shard layout)", d)
					okv = false
					break
				}
				flat = append(flat, want...)
				idx[i] = i
			}
			if !okv {
				continue
			}
			out, err := erasurecoding.DecodeShards(flat, idx, mode.k, mode.n-mode.k, len(shards[0]))
			if err != nil || !bytes.Equal(out, padded(data, mode.k)) {
				d["err"] = fmt.Sprint(err)
				h.Viol("vectors", fi, "", "decoding the official data shards does not return the official data", d)
				continue
			}
			h.Inc("official_vectors_systematic_part_checked")
		}
	}

	// ---- valgrind memcheck on a C driver linked with the same static library ---------------------------------------------------
	if h.Shard == 0 && h.Only < 0 && os.Getenv("VERIF_C30_VALGRIND") != "" {
		dir := os.Getenv("VERIF_DIR")
		work := os.Getenv("VERIF_WORK")
		lib := filepath.Join(work, "rs", "target", "release")
		bin := filepath.Join(work, "run", "c30-driver")
		cc := exec.Command("cc", "-O1", "-g", "-I", filepath.Join(repo, "pkg/erasure_coding/reed-solomon-ffi"), "-o", bin,
			filepath.Join(dir, "standin/cdriver/driver.c"), "-L", lib, "-lreed_solomon_ffi", "-lpthread", "-ldl", "-lm")
		if out, err := cc.CombinedOutput(); err != nil {
			h.Note("valgrind", "C driver did not build: "+string(out))
		} else {
			for _, p := range [][]string{{"2", "6", fmt.Sprint(h.N(150, 1500))}, {"342", "1023", fmt.Sprint(h.N(3, 40))}} {
				cmd := exec.Command("valgrind", "--error-exitcode=9", "--leak-check=full", "--errors-for-leak-kinds=definite", "-q", bin, fmt.Sprint(h.Seed), p[2], p[0], p[1])
				out, err := cmd.CombinedOutput()
				d := map[string]any{"k": p[0], "n": p[1], "output": string(out[max(0, len(out)-1500):])}
				if err != nil {
					d["exit"] = err.Error()
					h.Viol("valgrind", 0, "", "valgrind memcheck: error report, mismatch or library failure in the C driver round trips", d)
					continue
				}
				var trips int
				fmt.Sscanf(string(out[strings.LastIndex(string(out), "round_trips="):]), "round_trips=%d", &trips)
				h.Count("round_trips_under_valgrind", int64(trips))
			}
		}
	}
}

// ---- concurrent recoveries (race build) ----------------------------------------------------------------------------
//
// Recovery is a function of the shards it is given: several goroutines recovering the same or different blobs from
// different index subsets at the same time (auditors and assurers do) must each get their own blob back. Every
// result is compared with the original; the race detector watches the Go side of the cgo wrapper.
func TestVerifC30Par(t *testing.T) {
	h := vh.Open(t, "C30")
	defer h.Done()
	n := h.N(60, 600)
	for ci := 0; ci < n; ci++ {
		if !h.Mine("par", ci) {
			continue
		}
		h.CaseLight("par", ci)
		r := h.Rng("par", ci)
		k, nn := 2, 6
		if ci%6 == 5 {
			k, nn = 342, 1023
		}
		type job struct {
			want  []byte
			flat  []byte
			idx   []int
			shard int
		}
		var jobs []job
		for b := 0; b < 1+r.IntN(3); b++ {
			blob := r.Bytes(2*k*(1+r.IntN(3)) + r.IntN(3))
			shards, err := erasurecoding.EncodeDataShards(append([]byte(nil), blob...), k, nn-k)
			if err != nil {
				h.Viol("par", ci, "", "encoding fails on a non-empty blob", map[string]any{"err": err.Error()})
				continue
			}
			for s := 0; s < 4; s++ {
				idx := r.Perm(nn)[:k]
				flat := make([]byte, 0, k*len(shards[0]))
				for _, i := range idx {
					flat = append(flat, shards[i]...)
				}
				jobs = append(jobs, job{padded(blob, k), flat, idx, len(shards[0])})
			}
		}
		var wg sync.WaitGroup
		var bad atomic.Int64
		var first atomic.Value
		for g, j := range jobs {
			wg.Add(1)
			go func(g int, j job) {
				defer wg.Done()
				for round := 0; round < 20; round++ {
					out, err := erasurecoding.DecodeShards(append([]byte(nil), j.flat...), append([]int(nil), j.idx...), k, nn-k, j.shard)
					if err != nil || !bytes.Equal(out, j.want) {
						bad.Add(1)
						first.CompareAndSwap(nil, fmt.Sprintf("goroutine %d round %d: err=%v, equal=%v", g, round, err, bytes.Equal(out, j.want)))
					}
				}
			}(g, j)
		}
		wg.Wait()
		if bad.Load() > 0 {
			h.Viol("par", ci, "", "concurrent recoveries disturb each other (wrong data or an error for shards that recover alone)", map[string]any{"k": k, "n": nn, "goroutines": len(jobs), "bad_results": bad.Load(), "first": first.Load()})
		}
		h.Count("concurrent_recoveries", int64(20*len(jobs)))
		h.Distinct("par", ci)
	}
}
