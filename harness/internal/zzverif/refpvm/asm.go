package refpvm

import "encoding/binary"

// ---- blob encoding ---------------------------------------------------------------------------

func EncNat(x uint64) []byte {
	if x < 1<<7 {
		return []byte{byte(x)}
	}
	for l := uint(1); l <= 7; l++ {
		if x < uint64(1)<<(7*(l+1)) {
			out := []byte{byte(256 - (1 << (8 - l)) + int(x>>(8*l)))}
			for i := uint(0); i < l; i++ {
				out = append(out, byte(x>>(8*i)))
			}
			return out
		}
	}
	out := make([]byte, 9)
	out[0] = 0xFF
	binary.LittleEndian.PutUint64(out[1:], x)
	return out
}

// EncodeBlob builds p = E(|j|) E1(z) E(|c|) Ez(j) c k.
func EncodeBlob(code []byte, mask []bool, jump []uint64, z int) []byte {
	out := EncNat(uint64(len(jump)))
	out = append(out, byte(z))
	out = append(out, EncNat(uint64(len(code)))...)
	for _, j := range jump {
		for k := 0; k < z; k++ {
			if k < 8 {
				out = append(out, byte(j>>(8*uint(k))))
			} else {
				out = append(out, 0)
			}
		}
	}
	out = append(out, code...)
	k := make([]byte, (len(code)+7)/8)
	for i, m := range mask {
		if m {
			k[i/8] |= 1 << uint(i%8)
		}
	}
	return append(out, k...)
}

// ---- assembler --------------------------------------------------------------------------------

type Asm struct {
	Code []byte
	Mask []bool
	// fixups: branch instructions whose 4-byte offset field at Code[At:At+4] must point to block #Block
	fix []fixup
	// Starts[i] = pc of the i-th basic block opened with Label()
	Starts []uint32
}

type fixup struct {
	at    int
	pc    uint32
	block int
}

func (a *Asm) PC() uint32 { return uint32(len(a.Code)) }

// Raw emits an instruction: opcode byte + operand bytes (mask bit only on the opcode).
func (a *Asm) Raw(op byte, operands ...byte) {
	a.Code = append(a.Code, op)
	a.Mask = append(a.Mask, true)
	for _, b := range operands {
		a.Code = append(a.Code, b)
		a.Mask = append(a.Mask, false)
	}
}

// Label marks the current position as the start of a basic block (the previous instruction must
// be a terminator) and returns its index.
func (a *Asm) Label() int {
	a.Starts = append(a.Starts, a.PC())
	return len(a.Starts) - 1
}

func immBytes(v uint64, n int) []byte {
	out := make([]byte, n)
	for i := 0; i < n; i++ {
		out[i] = byte(v >> (8 * uint(i)))
	}
	return out
}

// ImmLen returns the shortest length 0..4 whose sign extension reproduces v, or -1.
func ImmLen(v uint64) int {
	for n := 0; n <= 4; n++ {
		if sx(uint32(n), v&(uint64(1)<<(8*uint(n))-1)) == v {
			if n == 0 && v != 0 {
				continue
			}
			return n
		}
	}
	return -1
}

func (a *Asm) Trap()        { a.Raw(0) }
func (a *Asm) Fallthrough() { a.Raw(1) }

func (a *Asm) Ecalli(id uint64, n int) { a.Raw(10, immBytes(id, n)...) }

func (a *Asm) LoadImm64(rd int, v uint64) { a.Raw(20, append([]byte{byte(rd)}, immBytes(v, 8)...)...) }

// OneRegImm: opcodes 50..62 (n = immediate length 0..4)
func (a *Asm) OneRegImm(op byte, ra int, v uint64, n int) {
	a.Raw(op, append([]byte{byte(ra)}, immBytes(v, n)...)...)
}

// TwoImm: opcodes 30..33
func (a *Asm) TwoImm(op byte, vx uint64, nx int, vy uint64, ny int) {
	b := []byte{byte(nx)}
	b = append(b, immBytes(vx, nx)...)
	b = append(b, immBytes(vy, ny)...)
	a.Raw(op, b...)
}

// OneRegTwoImm: opcodes 70..73
func (a *Asm) OneRegTwoImm(op byte, ra int, vx uint64, nx int, vy uint64, ny int) {
	b := []byte{byte(ra) | byte(nx)<<4}
	b = append(b, immBytes(vx, nx)...)
	b = append(b, immBytes(vy, ny)...)
	a.Raw(op, b...)
}

// TwoReg: opcodes 100..111
func (a *Asm) TwoReg(op byte, rd, ra int) { a.Raw(op, byte(rd)|byte(ra)<<4) }

// TwoRegImm: opcodes 120..161
func (a *Asm) TwoRegImm(op byte, ra, rb int, v uint64, n int) {
	a.Raw(op, append([]byte{byte(ra) | byte(rb)<<4}, immBytes(v, n)...)...)
}

// ThreeReg: opcodes 190..230
func (a *Asm) ThreeReg(op byte, ra, rb, rd int) { a.Raw(op, byte(ra)|byte(rb)<<4, byte(rd)) }

// Jump (40) to block (4-byte offset, fixed up by Finish).
func (a *Asm) Jump(block int) {
	pc := a.PC()
	a.Raw(40, 0, 0, 0, 0)
	a.fix = append(a.fix, fixup{at: int(pc) + 1, pc: pc, block: block})
}

// BranchImm: opcodes 80..90 with a 4-byte offset.
func (a *Asm) BranchImm(op byte, ra int, vx uint64, nx int, block int) {
	pc := a.PC()
	b := []byte{byte(ra) | byte(nx)<<4}
	b = append(b, immBytes(vx, nx)...)
	b = append(b, 0, 0, 0, 0)
	a.Raw(op, b...)
	a.fix = append(a.fix, fixup{at: int(pc) + 2 + nx, pc: pc, block: block})
}

// BranchReg: opcodes 170..175 with a 4-byte offset.
func (a *Asm) BranchReg(op byte, ra, rb int, block int) {
	pc := a.PC()
	a.Raw(op, byte(ra)|byte(rb)<<4, 0, 0, 0, 0)
	a.fix = append(a.fix, fixup{at: int(pc) + 2, pc: pc, block: block})
}

// LoadImmJumpInd: opcode 180
func (a *Asm) LoadImmJumpInd(ra, rb int, vx uint64, nx int, vy uint64, ny int) {
	b := []byte{byte(ra) | byte(rb)<<4, byte(nx)}
	b = append(b, immBytes(vx, nx)...)
	b = append(b, immBytes(vy, ny)...)
	a.Raw(180, b...)
}

// Finish resolves branch fixups; targets[i] gives the pc of block i (defaults to a.Starts).
func (a *Asm) Finish() {
	for _, f := range a.fix {
		t := a.Starts[f.block%len(a.Starts)]
		off := uint32(t) - f.pc
		binary.LittleEndian.PutUint32(a.Code[f.at:], off)
	}
}

func (a *Asm) Blob(jump []uint64, z int) []byte { return EncodeBlob(a.Code, a.Mask, jump, z) }

// StdBlob wraps a program blob into the standard program format of GP A.7:
// E3(|o|) E3(|w|) E2(z) E3(s) o w E4(|c|) c.
func StdBlob(o, w []byte, z uint16, s uint32, code []byte) []byte {
	le := func(v uint64, n int) []byte { return immBytes(v, n) }
	out := le(uint64(len(o)), 3)
	out = append(out, le(uint64(len(w)), 3)...)
	out = append(out, le(uint64(z), 2)...)
	out = append(out, le(uint64(s), 3)...)
	out = append(out, o...)
	out = append(out, w...)
	out = append(out, le(uint64(len(code)), 4)...)
	return append(out, code...)
}
