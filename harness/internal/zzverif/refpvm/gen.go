package refpvm

import "github.com/New-JAMneration/JAM-Protocol/internal/zzverif/vh"

// PageSpec describes one initial page (content = deterministic pattern from Seed, or zero).
type PageSpec struct {
	No   uint32
	Acc  Access
	Seed byte
}

func (ps PageSpec) Fill(dst []byte) {
	if ps.Seed == 0 {
		for i := range dst {
			dst[i] = 0
		}
		return
	}
	x := uint32(ps.Seed)*2654435761 + ps.No
	for i := range dst {
		x = x*1664525 + 1013904223
		dst[i] = byte(x >> 24)
	}
}

func BuildMem(pages []PageSpec) Mem {
	m := Mem{}
	for _, ps := range pages {
		p := &Page{Acc: ps.Acc}
		ps.Fill(p.Data[:])
		m[ps.No] = p
	}
	return m
}

// Case is one generated execution: program blob + start state.
type Case struct {
	Blob  []byte
	PC    uint32
	Gas   int64
	Regs  [13]uint64
	Pages []PageSpec
	Kind  string // stratum label
}

// standard layouts used by the generators: read-write pages, read-only pages and holes around
// 2^16, in the middle and at the top of the address space.
func GenPages(r vh.R) []PageSpec {
	var out []PageSpec
	add := func(no uint32, acc Access) {
		for _, p := range out {
			if p.No == no {
				return
			}
		}
		out = append(out, PageSpec{No: no, Acc: acc, Seed: byte(1 + r.IntN(255))})
	}
	// RW run at 0x20000 (pages 32,33), RO at 0x30000 (page 48), optional neighbours
	add(32, RW)
	add(33, RW)
	add(48, RO)
	if r.Bool() {
		add(16, Pick(r, []Access{RO, RW})) // first page above 2^16
	}
	if r.Bool() {
		add(34, Pick(r, []Access{RO, RW})) // after the RW run: RO or RW (or absent)
	}
	if r.Bool() {
		add(49, Pick(r, []Access{RO, RW}))
	}
	if r.IntN(4) == 0 {
		add(1<<20-1, Pick(r, []Access{RO, RW})) // last page of the address space
	}
	// pages below 2^16 are never mapped: no reachable constructor (standard initialisation, sbrk,
	// the pages host call) can produce them, so such a state would be an alarm on an impossible state
	return out
}

func Pick[T any](r vh.R, xs []T) T { return xs[r.IntN(len(xs))] }

// GenAddr draws an address near an edge of one of the pages (mapped or not).
func GenAddr(r vh.R, pages []PageSpec) uint64 {
	var base uint32
	if r.IntN(3) == 0 { // well inside the read-write run at 0x20000..0x21fff
		return uint64(0x20000 + 16 + r.IntN(2*ZP-64))
	}
	switch r.IntN(6) {
	case 0:
		base = 1 << 16
	case 1:
		base = 0 // wraps to the top of the address space with negative deltas
	default:
		p := pages[r.IntN(len(pages))]
		base = p.No * ZP
		if r.Bool() {
			base += ZP
		}
	}
	d := int32(r.IntN(21)) - 10
	if r.IntN(3) == 0 {
		d = int32(r.IntN(ZP))
	}
	return uint64(base + uint32(d))
}

func GenRegs(r vh.R, pages []PageSpec) (regs [13]uint64) {
	for i := range regs {
		switch r.IntN(4) {
		case 0, 1:
			regs[i] = GenAddr(r, pages)
			if r.IntN(8) == 0 {
				regs[i] |= uint64(r.Uint32()) << 32 // garbage in the upper half: addresses are taken mod 2^32
			}
		default:
			regs[i] = r.U64()
		}
	}
	return
}

func genImm(r vh.R, pages []PageSpec, addr bool) (uint64, int) {
	var v uint64
	if addr {
		v = sx(4, GenAddr(r, pages)&0xFFFFFFFF)
	} else {
		v = r.U64()
		if r.Bool() {
			v = uint64(int64(int8(r.Uint32())))
		}
	}
	n := ImmLen(v)
	if n < 0 {
		v = sx(4, v&0xFFFFFFFF)
		n = ImmLen(v)
	}
	if n < 4 && r.IntN(3) == 0 {
		n += r.IntN(4 - n + 1) // longer-than-minimal (still exact) immediates
	}
	return v, n
}

var nonTermOps = func() []byte {
	var o []byte
	for i := 0; i < 256; i++ {
		if valid[i] && !term[i] && i != 101 {
			o = append(o, byte(i))
		}
	}
	return o
}()

// emitPlain emits one non-terminator instruction with exact operand lengths.
func emitPlain(a *Asm, r vh.R, pages []PageSpec, op byte, hostIDs []uint64) {
	reg := func() int { return r.IntN(13) }
	switch {
	case op == 10:
		id := hostIDs[r.IntN(len(hostIDs))]
		n := ImmLen(id)
		if n < 0 {
			n = 4
		}
		a.Ecalli(id, n)
	case op == 20:
		a.LoadImm64(reg(), r.U64())
	case op >= 30 && op <= 33:
		vx, nx := genImm(r, pages, true)
		vy, ny := genImm(r, pages, false)
		a.TwoImm(op, vx, nx, vy, ny)
	case op >= 51 && op <= 62:
		v, n := genImm(r, pages, op >= 52)
		a.OneRegImm(op, reg(), v, n)
	case op >= 70 && op <= 73:
		vx, nx := genImm(r, pages, false)
		if r.Bool() {
			vx, nx = uint64(int64(r.IntN(33)-16)), 1
		}
		vy, ny := genImm(r, pages, false)
		a.OneRegTwoImm(op, reg(), vx, nx, vy, ny)
	case op >= 100 && op <= 111:
		a.TwoReg(op, reg(), reg())
	case op >= 120 && op <= 130:
		v, n := uint64(int64(r.IntN(33)-16)), 1
		if r.IntN(4) == 0 {
			v, n = genImm(r, pages, false)
		}
		a.TwoRegImm(op, reg(), reg(), v, n)
	case op >= 131 && op <= 161:
		v, n := genImm(r, pages, false)
		a.TwoRegImm(op, reg(), reg(), v, n)
	case op >= 190 && op <= 230:
		a.ThreeReg(op, reg(), reg(), reg())
	}
}

// GenCompilerLike builds a well-formed program: exact operand lengths, every block ends in a
// terminator, branch targets are block starts, jump table entries are block starts, the code ends
// with trap. Any divergence between engine and model on such a program is an unlisted violation.
func GenCompilerLike(r vh.R, hostIDs []uint64) Case {
	pages := GenPages(r)
	a := &Asm{}
	nb := 1 + r.IntN(6)
	type pending struct{ kind int }
	z := Pick(r, []int{1, 2, 4})
	for b := 0; b < nb; b++ {
		a.Label()
		ni := r.IntN(9)
		for i := 0; i < ni; i++ {
			op := nonTermOps[r.IntN(len(nonTermOps))]
			if op == 10 && len(hostIDs) == 0 {
				op = 100
			}
			emitPlain(a, r, pages, op, hostIDs)
		}
		reg := func() int { return r.IntN(13) }
		last := b == nb-1
		switch k := r.IntN(12); {
		case last:
			a.Trap()
		case k == 0:
			a.Fallthrough()
		case k == 1:
			a.Jump(r.IntN(nb))
		case k <= 4:
			vx, nx := genImm(r, pages, false)
			a.BranchImm(byte(80+r.IntN(11)), reg(), vx, nx, r.IntN(nb))
		case k <= 6:
			a.BranchReg(byte(170+r.IntN(6)), reg(), reg(), r.IntN(nb))
		case k == 7: // dynamic jump through the table: load the address, then jump_ind
			ra := reg()
			idx := r.IntN(nb)
			a.OneRegImm(51, ra, uint64(2*(idx+1)), 1)
			a.OneRegImm(50, ra, 0, 0)
		case k == 8: // halt
			ra := reg()
			a.LoadImm64(ra, 0xFFFF0000)
			a.OneRegImm(50, ra, 0, 0)
		case k == 9: // load_imm_jump_ind with a good address in rb
			ra, rb := reg(), reg()
			idx := r.IntN(nb)
			a.OneRegImm(51, rb, uint64(2*(idx+1))-2, 1)
			vx, nx := genImm(r, pages, false)
			a.LoadImmJumpInd(ra, rb, vx, nx, 2, 1)
		case k == 10: // jump_ind on whatever the register holds (mostly panics)
			v, n := genImm(r, pages, false)
			a.OneRegImm(50, reg(), v, n)
		default:
			a.Trap()
		}
	}
	a.Finish()
	jump := make([]uint64, nb)
	for i := range jump {
		jump[i] = uint64(a.Starts[i])
	}
	if len(a.Code) > 255 && z == 1 {
		z = 2
	}
	c := Case{Blob: a.Blob(jump, z), PC: 0, Pages: pages, Kind: "compiler"}
	c.Regs = GenRegs(r, pages)
	c.Gas = int64(1 + r.IntN(120))
	if r.IntN(8) == 0 {
		c.Gas = int64(r.IntN(4))
	}
	return c
}
