// Package refpvm is /verif's independent reference model of the Gray Paper v0.7.2 PVM
// (Appendix A.1-A.5). It shares no code with the repository's PVM package and is written for
// clarity, not speed. sbrk (opcode 101) is NOT modelled (DESIGN §3 U2): Step reports it as
// ExitUnmodelled so that callers can exclude such programs.
package refpvm

import (
	"encoding/binary"
	"math/bits"
)

const (
	ZP = 4096
	ZA = 2
)

type Access byte

const (
	None Access = iota
	RO
	RW
)

type Page struct {
	Acc  Access
	Data [ZP]byte
}

type Mem map[uint32]*Page

func (m Mem) Clone() Mem {
	out := make(Mem, len(m))
	for k, p := range m {
		c := *p
		out[k] = &c
	}
	return out
}

type ExitKind int

const (
	Continue ExitKind = iota
	Halt
	Panic
	OOG
	Fault
	Host
	Unmodelled
)

func (k ExitKind) String() string {
	return [...]string{"continue", "halt", "panic", "out-of-gas", "page-fault", "host-call", "unmodelled"}[k]
}

type Exit struct {
	Kind ExitKind
	Arg  uint64 // fault address (page start) or host-call identifier
	// for faults: the access that faulted (start address and width), for the lenient address check
	AccStart uint32
	AccLen   uint32
}

type State struct {
	PC   uint32
	Gas  int64
	Regs [13]uint64
	Mem  Mem
	// observations about the run so far (used to classify cases, never by the semantics)
	Wrapped  bool // some access crossed 2^32 (U14: not judged)
	SelfJump bool // a taken branch / dynamic jump targeted its own pc
	// a taken branch / dynamic jump landed at or beyond the end of the code (the position just after
	// a final terminator is formally a basic-block start holding the implicit trap; U15: not judged)
	JumpBeyond bool
	// execution reached a pc that is not an instruction start (only possible after a skip capped at
	// 24 or a start pc chosen there; U1: not judged)
	OffMask bool
}

func (s *State) Clone() *State {
	c := *s
	c.Mem = s.Mem.Clone()
	return &c
}

type Program struct {
	Code []byte
	Mask []bool // len == len(Code)
	Jump []uint64
	Z    int
	bb   map[uint32]bool
	// Overlong: some instruction start is followed by more than 24 non-start bytes inside the code
	// (the skip cap then lands between instruction starts; U17: such programs are not judged)
	Overlong bool
}

// ---- natural numbers ------------------------------------------------------------------------

func readNat(b []byte) (v uint64, n int, ok bool) {
	if len(b) == 0 {
		return 0, 0, false
	}
	l := 0
	for l < 8 && b[0]&(0x80>>uint(l)) != 0 {
		l++
	}
	if len(b) < 1+l {
		return 0, 0, false
	}
	if l == 8 {
		return binary.LittleEndian.Uint64(b[1:9]), 9, true
	}
	for i := 0; i < l; i++ {
		v |= uint64(b[1+i]) << (8 * uint(i))
	}
	if l < 7 {
		v |= uint64(b[0]&(0xFF>>uint(l+1))) << (8 * uint(l))
	}
	return v, 1 + l, true
}

// ReadNat exposes the model's natural-number reader (value, bytes consumed, ok).
func ReadNat(b []byte) (uint64, int, bool) { return readNat(b) }

// Deblob parses p = E(|j|) E1(z) E(|c|) Ez(j) c k exactly (no trailing bytes).
func Deblob(p []byte) (*Program, bool) {
	nj, n, ok := readNat(p)
	if !ok {
		return nil, false
	}
	p = p[n:]
	if len(p) < 1 {
		return nil, false
	}
	z := int(p[0])
	p = p[1:]
	nc, n, ok := readNat(p)
	if !ok {
		return nil, false
	}
	p = p[n:]
	if nc > uint64(len(p)) || (z > 0 && nj > uint64(len(p))/uint64(z)) || nj > 1<<24 {
		return nil, false
	}
	jl := int(nj) * z
	if jl > len(p) {
		return nil, false
	}
	jt := p[:jl]
	p = p[jl:]
	if uint64(len(p)) < nc {
		return nil, false
	}
	code := p[:nc]
	p = p[nc:]
	if len(p) != (int(nc)+7)/8 {
		return nil, false
	}
	pr := &Program{Code: code, Mask: make([]bool, nc), Z: z}
	for i := range pr.Mask {
		pr.Mask[i] = p[i/8]&(1<<uint(i%8)) != 0
	}
	for i := 0; i < int(nj); i++ {
		var v uint64
		big := false
		for k := 0; k < z; k++ {
			if k < 8 {
				v |= uint64(jt[i*z+k]) << (8 * uint(k))
			} else if jt[i*z+k] != 0 {
				big = true
			}
		}
		if big {
			v = ^uint64(0)
		}
		pr.Jump = append(pr.Jump, v)
	}
	pr.computeBB()
	return pr, true
}

func (p *Program) zeta(i uint64) byte {
	if i < uint64(len(p.Code)) {
		return p.Code[i]
	}
	return 0
}

func (p *Program) mask(i uint64) bool {
	if i < uint64(len(p.Mask)) {
		return p.Mask[i]
	}
	return true
}

// Skip(i) = min(24, first j>=0 with k[i+1+j] = 1)
func (p *Program) Skip(i uint32) uint32 {
	for j := uint32(0); j < 24; j++ {
		if p.mask(uint64(i) + 1 + uint64(j)) {
			return j
		}
	}
	return 24
}

var valid, term = buildTables()

func buildTables() (valid, term [256]bool) {
	rng := func(a, b int) {
		for i := a; i <= b; i++ {
			valid[i] = true
		}
	}
	rng(0, 1)
	rng(10, 10)
	rng(20, 20)
	rng(30, 33)
	rng(40, 40)
	rng(50, 62)
	rng(70, 73)
	rng(80, 90)
	rng(100, 111)
	rng(120, 161)
	rng(170, 175)
	rng(180, 180)
	rng(190, 230)
	for _, t := range []int{0, 1, 40, 50, 180} {
		term[t] = true
	}
	for t := 80; t <= 90; t++ {
		term[t] = true
	}
	for t := 170; t <= 175; t++ {
		term[t] = true
	}
	return
}

func Valid(op byte) bool      { return valid[op] }
func Terminator(op byte) bool { return term[op] }

func (p *Program) computeBB() {
	p.bb = map[uint32]bool{}
	for n := range p.Code {
		if p.Mask[n] && p.Skip(uint32(n)) == 24 && !p.mask(uint64(n)+25) {
			p.Overlong = true
		}
	}
	cand := []uint64{0}
	for n := range p.Code {
		if p.Mask[n] && term[p.Code[n]] {
			cand = append(cand, uint64(n)+1+uint64(p.Skip(uint32(n))))
		}
	}
	for _, c := range cand {
		if c < 1<<32 && p.mask(c) && valid[p.zeta(c)] {
			p.bb[uint32(c)] = true
		}
	}
}

func (p *Program) IsBB(pc uint64) bool { return pc < 1<<32 && p.bb[uint32(pc)] }

// ---- memory -----------------------------------------------------------------------------------

// check returns the lowest offending address of an access, or ok.
func (m Mem) check(addr uint32, n uint32, write bool) (bad uint32, ok bool) {
	ok = true
	for i := uint32(0); i < n; i++ {
		a := addr + i // wraps mod 2^32
		pg := m[a/ZP]
		fine := pg != nil && (pg.Acc == RW || (!write && pg.Acc == RO))
		if !fine {
			if ok || a < bad {
				bad = a
			}
			ok = false
		}
	}
	return
}

func (m Mem) access(addr, n uint32, write bool) (Exit, bool) {
	bad, ok := m.check(addr, n, write)
	if ok {
		return Exit{}, true
	}
	if bad < 1<<16 {
		return Exit{Kind: Panic}, false
	}
	return Exit{Kind: Fault, Arg: uint64(bad / ZP * ZP), AccStart: addr, AccLen: n}, false
}

// noteWrap records accesses that cross the top of the address space.
func (st *State) noteWrap(addr, n uint32) {
	if uint64(addr)+uint64(n) > 1<<32 {
		st.Wrapped = true
	}
}

func (m Mem) load(addr, n uint32) (uint64, Exit, bool) {
	if e, ok := m.access(addr, n, false); !ok {
		return 0, e, false
	}
	var v uint64
	for i := uint32(0); i < n; i++ {
		a := addr + i
		v |= uint64(m[a/ZP].Data[a%ZP]) << (8 * i)
	}
	return v, Exit{}, true
}

func (m Mem) store(addr, n uint32, v uint64) (Exit, bool) {
	if e, ok := m.access(addr, n, true); !ok {
		return e, false
	}
	for i := uint32(0); i < n; i++ {
		a := addr + i
		m[a/ZP].Data[a%ZP] = byte(v >> (8 * i))
	}
	return Exit{}, true
}

func (st *State) loadW(addr, n uint32) (uint64, Exit, bool) {
	st.noteWrap(addr, n)
	return st.Mem.load(addr, n)
}

func (st *State) storeW(addr, n uint32, v uint64) (Exit, bool) {
	st.noteWrap(addr, n)
	return st.Mem.store(addr, n, v)
}

// ---- operands -------------------------------------------------------------------------------

func sx(n uint32, v uint64) uint64 {
	switch n {
	case 0:
		return 0
	case 1:
		return uint64(int64(int8(v)))
	case 2:
		return uint64(int64(int16(v)))
	case 3:
		return uint64(int64(v<<40) >> 40)
	case 4:
		return uint64(int64(int32(v)))
	}
	return v
}

func (p *Program) le(at uint64, n uint32) uint64 {
	var v uint64
	for i := uint32(0); i < n; i++ {
		v |= uint64(p.zeta(at+uint64(i))) << (8 * i)
	}
	return v
}

func (p *Program) imm(at uint64, n uint32) uint64 { return sx(n, p.le(at, n)) }

func sat(a, b uint32) uint32 { // max(0, a-b)
	if a > b {
		return a - b
	}
	return 0
}

func x4(v uint64) uint64 { return uint64(int64(int32(uint32(v)))) }

// ---- control ------------------------------------------------------------------------------------

func (p *Program) branch(st *State, target uint64, cond bool, next uint32) Exit {
	if !cond {
		st.PC = next
		return Exit{}
	}
	if !p.IsBB(target) {
		return Exit{Kind: Panic}
	}
	if uint32(target) == st.PC {
		st.SelfJump = true
	}
	if target >= uint64(len(p.Code)) {
		st.JumpBeyond = true
	}
	st.PC = uint32(target)
	return Exit{}
}

func (p *Program) djump(st *State, a uint32) Exit {
	if a == 1<<32-1<<16 {
		return Exit{Kind: Halt}
	}
	if a == 0 || uint64(a) > uint64(len(p.Jump))*ZA || a%ZA != 0 {
		return Exit{Kind: Panic}
	}
	t := p.Jump[a/ZA-1]
	if !p.IsBB(t) {
		return Exit{Kind: Panic}
	}
	if uint32(t) == st.PC {
		st.SelfJump = true
	}
	if t >= uint64(len(p.Code)) {
		st.JumpBeyond = true
	}
	st.PC = uint32(t)
	return Exit{}
}

// Step performs one application of the single-step function. On Continue the state has advanced;
// on Host the PC still addresses the ecalli (callers resume at NextPC); on every other exit the
// registers and memory are those before the instruction, with the instruction's gas charged
// (except OOG, where nothing changes).
func (p *Program) Step(st *State) Exit {
	pc := uint64(st.PC)
	if !p.mask(pc) {
		st.OffMask = true
	}
	if st.Gas < 1 {
		return Exit{Kind: OOG}
	}
	st.Gas--
	op := p.zeta(pc)
	if !valid[op] {
		return Exit{Kind: Panic}
	}
	l := p.Skip(st.PC)
	next := st.PC + 1 + l
	r := &st.Regs
	b1 := p.zeta(pc + 1)
	lo, hi := min(12, int(b1&15)), min(12, int(b1>>4))

	switch {
	case op == 0:
		return Exit{Kind: Panic}
	case op == 1:
		st.PC = next
	case op == 10:
		lx := min(4, l)
		return Exit{Kind: Host, Arg: p.imm(pc+1, lx)}
	case op == 20:
		r[lo] = p.le(pc+2, 8)
		st.PC = next
	case op >= 30 && op <= 33:
		lx := min(4, uint32(b1)%8)
		ly := min(4, sat(l, lx+1))
		vx, vy := p.imm(pc+2, lx), p.imm(pc+2+uint64(lx), ly)
		if e, ok := st.storeW(uint32(vx), 1<<(op-30), vy); !ok {
			return e
		}
		st.PC = next
	case op == 40:
		lx := min(4, l)
		return p.branch(st, uint64(uint32(pc)+uint32(p.imm(pc+1, lx))), true, next)
	case op >= 50 && op <= 62:
		lx := min(4, sat(l, 1))
		vx := p.imm(pc+2, lx)
		switch {
		case op == 50:
			return p.djump(st, uint32(r[lo]+vx))
		case op == 51:
			r[lo] = vx
		case op <= 58:
			w := [...]uint32{1, 1, 2, 2, 4, 4, 8}[op-52]
			v, e, ok := st.loadW(uint32(vx), w)
			if !ok {
				return e
			}
			if (op-52)%2 == 1 { // i8, i16, i32
				v = sx(w, v)
			}
			r[lo] = v
		default:
			w := uint32(1) << (op - 59)
			if e, ok := st.storeW(uint32(vx), w, r[lo]); !ok {
				return e
			}
		}
		st.PC = next
	case op >= 70 && op <= 73:
		lx := min(4, uint32(b1>>4)%8)
		ly := min(4, sat(l, lx+1))
		vx, vy := p.imm(pc+2, lx), p.imm(pc+2+uint64(lx), ly)
		if e, ok := st.storeW(uint32(r[lo]+vx), 1<<(op-70), vy); !ok {
			return e
		}
		st.PC = next
	case op >= 80 && op <= 90:
		lx := min(4, uint32(b1>>4)%8)
		ly := min(4, sat(l, lx+1))
		vx := p.imm(pc+2, lx)
		target := uint64(uint32(pc) + uint32(p.imm(pc+2+uint64(lx), ly)))
		a := r[lo]
		var c bool
		switch op {
		case 80:
			c = true
		case 81:
			c = a == vx
		case 82:
			c = a != vx
		case 83:
			c = a < vx
		case 84:
			c = a <= vx
		case 85:
			c = a >= vx
		case 86:
			c = a > vx
		case 87:
			c = int64(a) < int64(vx)
		case 88:
			c = int64(a) <= int64(vx)
		case 89:
			c = int64(a) >= int64(vx)
		case 90:
			c = int64(a) > int64(vx)
		}
		e := p.branch(st, target, c, next)
		if op == 80 && e.Kind == Continue {
			r[lo] = vx
		}
		return e
	case op >= 100 && op <= 111:
		d, a := lo, r[hi]
		var v uint64
		switch op {
		case 100:
			v = a
		case 101:
			return Exit{Kind: Unmodelled}
		case 102:
			v = uint64(bits.OnesCount64(a))
		case 103:
			v = uint64(bits.OnesCount32(uint32(a)))
		case 104:
			v = uint64(bits.LeadingZeros64(a))
		case 105:
			v = uint64(bits.LeadingZeros32(uint32(a)))
		case 106:
			v = uint64(bits.TrailingZeros64(a))
		case 107:
			v = uint64(bits.TrailingZeros32(uint32(a)))
		case 108:
			v = uint64(int64(int8(a)))
		case 109:
			v = uint64(int64(int16(a)))
		case 110:
			v = a & 0xFFFF
		case 111:
			v = bits.ReverseBytes64(a)
		}
		r[d] = v
		st.PC = next
	case op >= 120 && op <= 161:
		lx := min(4, sat(l, 1))
		vx := p.imm(pc+2, lx)
		ra, wb := lo, r[hi]
		switch {
		case op <= 123:
			if e, ok := st.storeW(uint32(wb+vx), 1<<(op-120), r[ra]); !ok {
				return e
			}
		case op <= 130:
			w := [...]uint32{1, 1, 2, 2, 4, 4, 8}[op-124]
			v, e, ok := st.loadW(uint32(wb+vx), w)
			if !ok {
				return e
			}
			if (op-124)%2 == 1 {
				v = sx(w, v)
			}
			r[ra] = v
		default:
			r[ra] = alu2(op, r[ra], wb, vx)
		}
		st.PC = next
	case op >= 170 && op <= 175:
		lx := min(4, sat(l, 1))
		target := uint64(uint32(pc) + uint32(p.imm(pc+2, lx)))
		a, b := r[lo], r[hi]
		var c bool
		switch op {
		case 170:
			c = a == b
		case 171:
			c = a != b
		case 172:
			c = a < b
		case 173:
			c = int64(a) < int64(b)
		case 174:
			c = a >= b
		case 175:
			c = int64(a) >= int64(b)
		}
		return p.branch(st, target, c, next)
	case op == 180:
		b2 := p.zeta(pc + 2)
		lx := min(4, uint32(b2)%8)
		ly := min(4, sat(l, lx+2))
		vx, vy := p.imm(pc+3, lx), p.imm(pc+3+uint64(lx), ly)
		oldB := r[hi]
		e := p.djump(st, uint32(oldB+vy))
		if e.Kind == Continue {
			r[lo] = vx
		}
		return e
	case op >= 190 && op <= 230:
		d := min(12, int(p.zeta(pc+2)))
		r[d] = alu3(op, r[lo], r[hi], r[d])
		st.PC = next
	}
	return Exit{}
}

// NextPC is the fall-through successor of the instruction at pc.
func (p *Program) NextPC(pc uint32) uint32 { return pc + 1 + p.Skip(pc) }

// LoadImmJumpWritesRegOnPanic: for opcodes 80/180 the GP writes the register in the same
// transition in which the jump may panic; registers are not consumed after a panic, so the
// model leaves them untouched and comparisons must not look at registers after a panic.

func alu2(op byte, old, b, x uint64) uint64 {
	switch op {
	case 131:
		return x4(b + x)
	case 132:
		return b & x
	case 133:
		return b ^ x
	case 134:
		return b | x
	case 135:
		return x4(b * x)
	case 136:
		return b2u(b < x)
	case 137:
		return b2u(int64(b) < int64(x))
	case 138:
		return x4(uint64(uint32(b) << (x % 32)))
	case 139:
		return x4(uint64(uint32(b) >> (x % 32)))
	case 140:
		return uint64(int64(int32(uint32(b)) >> (x % 32)))
	case 141:
		return x4(x - b)
	case 142:
		return b2u(b > x)
	case 143:
		return b2u(int64(b) > int64(x))
	case 144:
		return x4(uint64(uint32(x) << (b % 32)))
	case 145:
		return x4(uint64(uint32(x) >> (b % 32)))
	case 146:
		return uint64(int64(int32(uint32(x)) >> (b % 32)))
	case 147:
		if b == 0 {
			return x
		}
		return old
	case 148:
		if b != 0 {
			return x
		}
		return old
	case 149:
		return b + x
	case 150:
		return b * x
	case 151:
		return b << (x % 64)
	case 152:
		return b >> (x % 64)
	case 153:
		return uint64(int64(b) >> (x % 64))
	case 154:
		return x - b
	case 155:
		return x << (b % 64)
	case 156:
		return x >> (b % 64)
	case 157:
		return uint64(int64(x) >> (b % 64))
	case 158:
		return bits.RotateLeft64(b, -int(x%64))
	case 159:
		return bits.RotateLeft64(x, -int(b%64))
	case 160:
		return x4(uint64(bits.RotateLeft32(uint32(b), -int(x%32))))
	case 161:
		return x4(uint64(bits.RotateLeft32(uint32(x), -int(b%32))))
	}
	return old
}

func b2u(b bool) uint64 {
	if b {
		return 1
	}
	return 0
}

func alu3(op byte, a, b, old uint64) uint64 {
	a32, b32 := uint32(a), uint32(b)
	sa32, sb32 := int32(a32), int32(b32)
	sa, sb := int64(a), int64(b)
	switch op {
	case 190:
		return x4(a + b)
	case 191:
		return x4(a - b)
	case 192:
		return x4(a * b)
	case 193:
		if b32 == 0 {
			return ^uint64(0)
		}
		return x4(uint64(a32 / b32))
	case 194:
		if sb32 == 0 {
			return ^uint64(0)
		}
		if sa32 == -1<<31 && sb32 == -1 {
			return uint64(int64(sa32))
		}
		return uint64(int64(sa32 / sb32))
	case 195:
		if b32 == 0 {
			return x4(uint64(a32))
		}
		return x4(uint64(a32 % b32))
	case 196:
		if sb32 == 0 {
			return uint64(int64(sa32))
		}
		if sa32 == -1<<31 && sb32 == -1 {
			return 0
		}
		return uint64(int64(sa32 % sb32))
	case 197:
		return x4(uint64(a32 << (b % 32)))
	case 198:
		return x4(uint64(a32 >> (b % 32)))
	case 199:
		return uint64(int64(sa32 >> (b % 32)))
	case 200:
		return a + b
	case 201:
		return a - b
	case 202:
		return a * b
	case 203:
		if b == 0 {
			return ^uint64(0)
		}
		return a / b
	case 204:
		if b == 0 {
			return ^uint64(0)
		}
		if sa == -1<<63 && sb == -1 {
			return a
		}
		return uint64(sa / sb)
	case 205:
		if b == 0 {
			return a
		}
		return a % b
	case 206:
		if b == 0 {
			return a
		}
		if sa == -1<<63 && sb == -1 {
			return 0
		}
		return uint64(sa % sb)
	case 207:
		return a << (b % 64)
	case 208:
		return a >> (b % 64)
	case 209:
		return uint64(sa >> (b % 64))
	case 210:
		return a & b
	case 211:
		return a ^ b
	case 212:
		return a | b
	case 213: // upper 64 bits of signed x signed
		hi, _ := bits.Mul64(a, b)
		if sa < 0 {
			hi -= b
		}
		if sb < 0 {
			hi -= a
		}
		return hi
	case 214:
		hi, _ := bits.Mul64(a, b)
		return hi
	case 215: // signed a x unsigned b
		hi, _ := bits.Mul64(a, b)
		if sa < 0 {
			hi -= b
		}
		return hi
	case 216:
		return b2u(a < b)
	case 217:
		return b2u(sa < sb)
	case 218:
		if b == 0 {
			return a
		}
		return old
	case 219:
		if b != 0 {
			return a
		}
		return old
	case 220:
		return bits.RotateLeft64(a, int(b%64))
	case 221:
		return x4(uint64(bits.RotateLeft32(a32, int(b%32))))
	case 222:
		return bits.RotateLeft64(a, -int(b%64))
	case 223:
		return x4(uint64(bits.RotateLeft32(a32, -int(b%32))))
	case 224:
		return a &^ b
	case 225:
		return a | ^b
	case 226:
		return ^(a ^ b)
	case 227:
		if sa > sb {
			return a
		}
		return b
	case 228:
		return max(a, b)
	case 229:
		if sa < sb {
			return a
		}
		return b
	case 230:
		return min(a, b)
	}
	return old
}

// Run applies Step until a non-Continue exit, with a step cap (cap exceeded => ok=false).
func (p *Program) Run(st *State, maxSteps int) (Exit, int, bool) {
	for n := 0; n < maxSteps; n++ {
		e := p.Step(st)
		if e.Kind != Continue {
			return e, n + 1, true
		}
	}
	return Exit{}, maxSteps, false
}

// Ins is the decoded form of one instruction (written independently of Step so that the C05
// frame monitor does not rely on the interpreter's execution path).
type Ins struct {
	Op         byte
	Valid      bool
	Skip       uint32
	RA, RB, RD int
	VX, VY     uint64
	// memory behaviour: Kind = "load" | "store" | "" ; address = (Base + Off) mod 2^32 where Base is a
	// register value (BaseReg >= 0) or 0
	Kind    string
	BaseReg int
	Off     uint64
	Width   uint32
	Signed  bool
	ValReg  int    // store: register holding the value (-1: immediate in Val)
	Val     uint64 // store: immediate value
	DstReg  int    // load: destination register
}

func (p *Program) Decode(pc uint32) Ins {
	at := uint64(pc)
	op := p.zeta(at)
	in := Ins{Op: op, Valid: valid[op], Skip: p.Skip(pc), BaseReg: -1, ValReg: -1, DstReg: -1}
	if !in.Valid {
		return in
	}
	l := in.Skip
	b1 := p.zeta(at + 1)
	lo, hi := min(12, int(b1&15)), min(12, int(b1>>4))
	widths := [...]uint32{1, 1, 2, 2, 4, 4, 8}
	switch {
	case op >= 30 && op <= 33:
		lx := min(4, uint32(b1)%8)
		ly := min(4, sat(l, lx+1))
		in.VX, in.VY = p.imm(at+2, lx), p.imm(at+2+uint64(lx), ly)
		in.Kind, in.Off, in.Width, in.Val = "store", in.VX, 1<<(op-30), in.VY
	case op >= 52 && op <= 58:
		in.RA = lo
		in.VX = p.imm(at+2, min(4, sat(l, 1)))
		in.Kind, in.Off, in.Width, in.Signed, in.DstReg = "load", in.VX, widths[op-52], (op-52)%2 == 1, lo
	case op >= 59 && op <= 62:
		in.RA = lo
		in.VX = p.imm(at+2, min(4, sat(l, 1)))
		in.Kind, in.Off, in.Width, in.ValReg = "store", in.VX, 1<<(op-59), lo
	case op >= 70 && op <= 73:
		lx := min(4, uint32(b1>>4)%8)
		ly := min(4, sat(l, lx+1))
		in.RA = lo
		in.VX, in.VY = p.imm(at+2, lx), p.imm(at+2+uint64(lx), ly)
		in.Kind, in.BaseReg, in.Off, in.Width, in.Val = "store", lo, in.VX, 1<<(op-70), in.VY
	case op >= 120 && op <= 123:
		in.RA, in.RB = lo, hi
		in.VX = p.imm(at+2, min(4, sat(l, 1)))
		in.Kind, in.BaseReg, in.Off, in.Width, in.ValReg = "store", hi, in.VX, 1<<(op-120), lo
	case op >= 124 && op <= 130:
		in.RA, in.RB = lo, hi
		in.VX = p.imm(at+2, min(4, sat(l, 1)))
		in.Kind, in.BaseReg, in.Off, in.Width, in.Signed, in.DstReg = "load", hi, in.VX, widths[op-124], (op-124)%2 == 1, lo
	case op >= 100 && op <= 111:
		in.RD, in.RA = lo, hi
	}
	return in
}

// SignExtend exposes X_n for monitors.
func SignExtend(n uint32, v uint64) uint64 { return sx(n, v) }
