package c20

import (
	"encoding/binary"
	"fmt"
	"sort"
	"testing"

	"github.com/New-JAMneration/JAM-Protocol/internal/blockchain"
	"github.com/New-JAMneration/JAM-Protocol/internal/extrinsic"
	"github.com/New-JAMneration/JAM-Protocol/internal/types"
	"github.com/New-JAMneration/JAM-Protocol/internal/utilities/shuffle"
	"github.com/New-JAMneration/JAM-Protocol/internal/zzverif/vh"
	"golang.org/x/crypto/blake2b"
)

// model of GP F.1-F.3
func modelQ(hh [32]byte, l int) []uint32 {
	out := make([]uint32, l)
	for i := 0; i < l; i++ {
		var pre [36]byte
		copy(pre[:], hh[:])
		binary.LittleEndian.PutUint32(pre[32:], uint32(i/8))
		d := blake2b.Sum256(pre[:])
		out[i] = binary.LittleEndian.Uint32(d[4*(i%8):])
	}
	return out
}

func modelShuffle(s []uint32, hh [32]byte) []uint32 {
	w := append([]uint32(nil), s...)
	r := modelQ(hh, len(s))
	out := make([]uint32, 0, len(s))
	for k := 0; len(w) > 0; k++ {
		l := len(w)
		idx := int(r[k] % uint32(l))
		out = append(out, w[idx])
		w[idx] = w[l-1]
		w = w[:l-1]
	}
	return out
}

func isPerm(a, b []uint32) bool {
	if len(a) != len(b) {
		return false
	}
	x := append([]uint32(nil), a...)
	y := append([]uint32(nil), b...)
	sort.Slice(x, func(i, j int) bool { return x[i] < x[j] })
	sort.Slice(y, func(i, j int) bool { return y[i] < y[j] })
	for i := range x {
		if x[i] != y[i] {
			return false
		}
	}
	return true
}

func toU32(s []uint32) []types.U32 {
	o := make([]types.U32, len(s))
	for i := range s {
		o[i] = types.U32(s[i])
	}
	return o
}

func eqU32(a []types.U32, b []uint32) bool {
	if len(a) != len(b) {
		return false
	}
	for i := range a {
		if uint32(a[i]) != b[i] {
			return false
		}
	}
	return true
}

func TestVerifC20(t *testing.T) {
	h := vh.Open(t, "C20")
	defer h.Done()

	// ---- purity: the same entropy used for several lengths in a row (growing, shrinking, lengths that are and are not
	// multiples of 8, other entropies in between): every call must still equal the model -----------------------------------
	np := h.N(3000, 60000)
	for ci := 0; ci < np; ci++ {
		if !h.Mine("pure", ci) {
			continue
		}
		h.CaseLight("pure", ci)
		r := h.Rng("pure", ci)
		var es [2][32]byte
		copy(es[0][:], r.Bytes(32))
		copy(es[1][:], r.Bytes(32))
		var trace []int
		for k, n := 0, 2+r.IntN(6); k < n; k++ {
			l := []int{0, 1, 5, 6, 7, 8, 9, 15, 16, 17, 20, 50, 341, 1023}[r.IntN(14)]
			if r.IntN(3) == 0 {
				l = r.IntN(200)
			}
			e := es[0]
			if r.IntN(5) == 0 {
				e = es[1]
			}
			in := make([]uint32, l)
			for i := range in {
				in[i] = uint32(i)
			}
			trace = append(trace, l)
			want := modelShuffle(in, e)
			var got []types.U32
			if p, msg, st := vh.Guard(func() { got = shuffle.Shuffle(toU32(in), types.OpaqueHash(e)) }); p {
				h.Viol("pure", ci, "", "shuffle-panic", map[string]any{"lengths_so_far": fmt.Sprint(trace), "panic": msg, "stack": st})
				break
			}
			if !eqU32(got, want) {
				h.Viol("pure", ci, "", "shuffle-differs-from-model-after-earlier-calls-with-the-same-entropy", map[string]any{"lengths_so_far": fmt.Sprint(trace), "call": k})
				break
			}
			h.Inc("shuffles_in_call_sequences")
		}
		h.Distinct("pure", fmt.Sprint(trace))
	}

	// ---- shuffle: every length 0..1100 x entropies ------------------------------------------
	reps := h.N(3, 10)
	for l := 0; l <= 1100; l++ {
		if !h.Mine("shuffle", l) {
			continue
		}
		h.CaseLight("shuffle", l)
		for rep := 0; rep < reps; rep++ {
			r := h.Rng("shuffle", l*16+rep)
			var e [32]byte
			copy(e[:], r.Bytes(32))
			if rep == 1 {
				e = [32]byte{}
			}
			in := make([]uint32, l)
			for i := range in {
				switch rep % 3 {
				case 0:
					in[i] = uint32(i)
				case 1:
					in[i] = uint32(i * 341 / max(1, l)) // repeated values like the core list
				default:
					in[i] = r.Uint32()
				}
			}
			want := modelShuffle(in, e)
			var got []types.U32
			arg := toU32(in)
			if p, msg, st := vh.Guard(func() { got = shuffle.Shuffle(arg, types.OpaqueHash(e)) }); p {
				h.Viol("shuffle", l, "", "shuffle-panic", map[string]any{"len": l, "panic": msg, "stack": st})
				continue
			}
			g := make([]uint32, len(got))
			for i := range got {
				g[i] = uint32(got[i])
			}
			if !isPerm(g, in) {
				h.Viol("shuffle", l, "", "not-a-permutation", map[string]any{"len": l, "entropy": vh.Hex(e[:])})
			} else if !eqU32(got, want) {
				h.Viol("shuffle", l, "", "differs-from-fisher-yates-model", map[string]any{"len": l, "entropy": vh.Hex(e[:]), "got_head": fmt.Sprint(g[:min(8, l)]), "model_head": fmt.Sprint(want[:min(8, l)])})
			}
			// determinism: a second call on a fresh copy gives the same answer
			got2 := shuffle.Shuffle(toU32(in), types.OpaqueHash(e))
			if !eqU32(got2, g) {
				h.Viol("shuffle", l, "", "shuffle-not-deterministic", map[string]any{"len": l})
			}
			h.Inc("shuffles")
			if rep > 0 {
				h.Count("cases", 1) // every (length, entropy, fill) triple is one evaluation; CaseLight counted rep 0
			}
			if l >= 2 {
				h.Distinct("sh", l, e[:])
			}
			if l == 7 && rep == 0 {
				h.Sample(map[string]any{"len": l, "entropy": vh.Hex(e[:]), "in": in, "out": g})
			}
		}
	}

	// ---- guarantor assignment: all slots of 3 epochs, tiny and full ---------------------------
	for mi, mode := range []string{"tiny", "full"} {
		if mode == "tiny" {
			types.SetTinyMode()
		} else {
			types.SetFullMode()
		}
		V, C, E, R := types.ValidatorsCount, types.CoresCount, types.EpochLength, types.RotationPeriod
		base := make([]uint32, V)
		share := make([]int, C)
		for i := 0; i < V; i++ {
			base[i] = uint32(C * i / V)
			share[base[i]]++
		}
		vals := make(types.ValidatorsData, V)
		for i := range vals {
			vals[i].Ed25519[0] = byte(i)
			vals[i].Ed25519[1] = byte(i >> 8)
			vals[i].Bandersnatch[0] = byte(i)
		}
		nent := h.N(3, 12)
		for en := 0; en < nent; en++ {
			r := h.Rng("assign-"+mode, en)
			var e types.Entropy
			copy(e[:], r.Bytes(32))
			sh := modelShuffle(base, [32]byte(e))
			epoch0 := r.IntN(1000)
			for s := 0; s < 3*E; s++ {
				ci := (mi*64+en)*4096 + s
				if !h.Mine("assign", ci) {
					continue
				}
				h.CaseLight("assign", ci)
				slot := types.TimeSlot(epoch0*E + s)
				var ga extrinsic.GuranatorAssignments
				if p, msg, st := vh.Guard(func() { ga = extrinsic.NewGuranatorAssignments(e, slot, append(types.ValidatorsData(nil), vals...)) }); p {
					h.Viol("assign", ci, "", "assignment-panic", map[string]any{"mode": mode, "slot": slot, "panic": msg, "stack": st})
					continue
				}
				rot := uint32((int(slot) % E) / R)
				ok := len(ga.CoreAssignments) == V
				cnt := make([]int, C)
				for i := 0; ok && i < V; i++ {
					c := int(ga.CoreAssignments[i])
					if c < 0 || c >= C {
						ok = false
						break
					}
					cnt[c]++
					if uint32(c) != (sh[i]+rot)%uint32(C) {
						ok = false
					}
				}
				if !ok {
					h.Viol("assign", ci, "", "assignment-differs-from-model", map[string]any{"mode": mode, "slot": slot, "entropy": vh.Hex(e[:])})
					continue
				}
				for c := 0; c < C; c++ {
					if cnt[(c+int(rot))%C] != share[c] {
						h.Viol("assign", ci, "", "core-share-wrong", map[string]any{"mode": mode, "slot": slot, "core": c, "count": cnt[(c+int(rot))%C], "want": share[c]})
						break
					}
				}
				// rotation by one core per rotation period inside the epoch
				if (int(slot)%E)+R < E {
					gb := extrinsic.NewGuranatorAssignments(e, slot+types.TimeSlot(R), append(types.ValidatorsData(nil), vals...))
					for i := 0; i < V; i++ {
						if int(gb.CoreAssignments[i]) != (int(ga.CoreAssignments[i])+1)%C {
							h.Viol("assign", ci, "", "rotation-not-by-one-core", map[string]any{"mode": mode, "slot": slot, "validator": i})
							break
						}
					}
					h.Inc("rotation_pairs")
				}
				// same entropy and slot => same assignment (second call)
				gc := extrinsic.NewGuranatorAssignments(e, slot, append(types.ValidatorsData(nil), vals...))
				for i := 0; i < V; i++ {
					if gc.CoreAssignments[i] != ga.CoreAssignments[i] {
						h.Viol("assign", ci, "", "assignment-not-deterministic", map[string]any{"mode": mode, "slot": slot})
						break
					}
				}
				if len(ga.PublicKeys) != V || ga.PublicKeys[V-1].Ed25519 != vals[V-1].Ed25519 {
					h.Viol("assign", ci, "", "public-keys-not-carried", map[string]any{"mode": mode, "slot": slot})
				}
				// G and G* as the block processing derives them from the posterior state (GP 11.21, 11.22): G = (P(η'2, τ'), κ');
				// G* = (P(e, τ'-R), k) with (e, k) = (η'2, κ') when τ'-R lies in the epoch of τ', (η'3, λ') otherwise.
				if int(slot) >= R && (mode == "tiny" || s%7 == 0) {
					var e3 types.Entropy
					copy(e3[:], r.Bytes(32))
					lam := make(types.ValidatorsData, V)
					for i := range lam {
						lam[i] = vals[i]
						lam[i].Ed25519[31] = 0xAA // the previous epoch's set: same indices, other keys
					}
					blockchain.ResetInstance()
					ps := blockchain.GetInstance().GetPosteriorStates()
					var eta types.EntropyBuffer
					copy(eta[0][:], r.Bytes(32))
					copy(eta[1][:], r.Bytes(32))
					eta[2], eta[3] = e, e3
					ps.SetEta(eta)
					ps.SetTau(slot)
					ps.SetKappa(append(types.ValidatorsData(nil), vals...))
					ps.SetLambda(lam)
					g, gerr := extrinsic.GFunc(map[types.Ed25519Public]bool{})
					gs, gserr := extrinsic.GStarFunc(map[types.Ed25519Public]bool{})
					prev := int(slot) - R
					sameEpoch := prev/E == int(slot)/E
					shS, wantKeys := sh, vals
					if !sameEpoch {
						shS, wantKeys = modelShuffle(base, [32]byte(e3)), lam
					}
					rotS := uint32((prev % E) / R)
					bad := ""
					switch {
					case gerr != nil || gserr != nil:
						bad = fmt.Sprint("error: ", gerr, gserr)
					case len(g.CoreAssignments) != V || len(gs.CoreAssignments) != V || len(gs.PublicKeys) != V:
						bad = "wrong length"
					default:
						for i := 0; i < V && bad == ""; i++ {
							if uint32(g.CoreAssignments[i]) != (sh[i]+rot)%uint32(C) || g.PublicKeys[i].Ed25519 != vals[i].Ed25519 {
								bad = fmt.Sprintf("G differs from (P(η'2, τ'), κ') at validator %d", i)
							} else if uint32(gs.CoreAssignments[i]) != (shS[i]+rotS)%uint32(C) {
								bad = fmt.Sprintf("G* cores differ from P(e, τ'-R) at validator %d (τ'-R in the same epoch: %v)", i, sameEpoch)
							} else if gs.PublicKeys[i].Ed25519 != wantKeys[i].Ed25519 {
								bad = fmt.Sprintf("G* uses the wrong validator set at validator %d (τ'-R in the same epoch: %v)", i, sameEpoch)
							}
						}
					}
					if bad != "" {
						h.Viol("assign", ci, "", "G / G* derived from the posterior state differ from GP 11.21 / 11.22", map[string]any{"mode": mode, "slot": slot, "slot_in_epoch": int(slot) % E, "why": bad})
					}
					h.Inc("g_and_gstar_compared")
					if !sameEpoch {
						h.Inc("gstar_from_the_previous_epoch")
					}
				}
				h.Inc("assignments_" + mode)
				h.Distinct("as", mode, e[:], int(slot))
			}
		}
	}
	types.SetTinyMode()
}
