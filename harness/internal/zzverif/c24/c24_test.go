package c24

import (
	"fmt"
	"testing"

	"github.com/New-JAMneration/JAM-Protocol/internal/authorization"
	"github.com/New-JAMneration/JAM-Protocol/internal/blockchain"
	"github.com/New-JAMneration/JAM-Protocol/internal/types"
	"github.com/New-JAMneration/JAM-Protocol/internal/zzverif/vh"
)

type hsh = types.AuthorizerHash

func model(slot int, gs map[int][]hsh, pools [][]hsh, queues [][]hsh, O int) [][]hsh {
	out := make([][]hsh, len(pools))
	for c := range pools {
		p := append([]hsh(nil), pools[c]...)
		for _, a := range gs[c] { // each authorizer used by that core's guarantees: its leftmost occurrence goes
			for i := range p {
				if p[i] == a {
					p = append(p[:i:i], p[i+1:]...)
					break
				}
			}
		}
		p = append(p, queues[c][slot%len(queues[c])])
		if len(p) > O {
			p = p[len(p)-O:]
		}
		out[c] = p
	}
	return out
}

func small(r vh.R, alphabet int) hsh {
	var x hsh
	x[0] = byte(1 + r.IntN(alphabet))
	x[31] = x[0]
	return x
}

func deepPools(p [][]hsh, spare bool) types.AuthPools {
	out := make(types.AuthPools, len(p))
	for i := range p {
		c := 0
		if spare {
			c = 3
		}
		out[i] = make(types.AuthPool, len(p[i]), len(p[i])+c)
		copy(out[i], p[i])
	}
	return out
}

func deepQueues(q [][]hsh) types.AuthQueues {
	out := make(types.AuthQueues, len(q))
	for i := range q {
		out[i] = append(types.AuthQueue(nil), q[i]...)
	}
	return out
}

func show(p [][]hsh) string {
	s := ""
	for _, c := range p {
		s += "["
		for _, x := range c {
			s += fmt.Sprintf("%02x ", x[0])
		}
		s += "]"
	}
	return s
}

func eq(a types.AuthPools, b [][]hsh) bool {
	if len(a) != len(b) {
		return false
	}
	for c := range a {
		if len(a[c]) != len(b[c]) {
			return false
		}
		for i := range a[c] {
			if a[c][i] != b[c][i] {
				return false
			}
		}
	}
	return true
}

func TestVerifC24(t *testing.T) {
	h := vh.Open(t, "C24")
	defer h.Done()
	O, Q := types.AuthPoolMaxSize, types.AuthQueueSize
	n := h.N(100000, 1500000)
	for ci := 0; ci < n; ci++ {
		if !h.Mine("stf", ci) {
			continue
		}
		h.CaseLight("stf", ci)
		r := h.Rng("stf", ci)
		full := ci%50 == 49
		if full {
			types.SetFullMode()
		} else {
			types.SetTinyMode()
		}
		C := types.CoresCount
		E := types.EpochLength
		alphabet := 2 + r.IntN(5)
		pools := make([][]hsh, C)
		queues := make([][]hsh, C)
		for c := 0; c < C; c++ {
			pl := r.IntN(O + 1)
			if r.IntN(3) == 0 {
				pl = O
			}
			pools[c] = make([]hsh, pl) // empty pools are non-nil
			for i := range pools[c] {
				pools[c][i] = small(r, alphabet)
			}
			queues[c] = make([]hsh, Q)
			for i := range queues[c] {
				queues[c][i] = small(r, alphabet)
				queues[c][i][1] = byte(i) // queue entries distinguishable by position
			}
		}
		slot := r.IntN(3*E) + r.IntN(2)*1_000_000
		if r.IntN(4) == 0 { // the whole 32-bit range: around 2^16, 2^31 and 2^32 (a slot narrowed to 16 or 31 bits selects another queue entry)
			slot = []int{1<<16 - 1, 1 << 16, 1<<16 + 17, 70000, 1<<31 - 1, 1 << 31, 1<<31 + 41, 1<<32 - 1, 1<<32 - 80}[r.IntN(9)] - r.IntN(3)
			h.Inc("slots_at_or_above_2^16")
		}
		gs := map[int][]hsh{}
		multi := false
		var eg types.GuaranteesExtrinsic
		for c := 0; c < C; c++ {
			if r.IntN(2) == 0 || (full && r.IntN(20) != 0) {
				continue
			}
			ng := 1
			if r.IntN(5) == 0 {
				ng = 2 + r.IntN(2) // several guarantees naming this core
			}
			for k := 0; k < ng; k++ {
				var a hsh
				switch r.IntN(4) {
				case 0:
					a = small(r, alphabet+2) // possibly absent
				default:
					if len(pools[c]) > 0 {
						a = pools[c][r.IntN(len(pools[c]))]
					} else {
						a = small(r, alphabet)
					}
				}
				gs[c] = append(gs[c], a)
				eg = append(eg, types.ReportGuarantee{Report: types.WorkReport{CoreIndex: types.CoreIndex(c), AuthorizerHash: types.OpaqueHash(a)}})
			}
			if ng > 1 {
				multi = true
			}
		}
		want := model(slot, gs, pools, queues, O)

		viaSingleton := ci%10 == 0
		argPools := deepPools(pools, ci%3 == 0)
		argQueues := deepQueues(queues)
		var got types.AuthPools
		var err error
		p, msg, st := vh.Guard(func() {
			if viaSingleton {
				blockchain.ResetInstance()
				cs := blockchain.GetInstance()
				cs.AddBlock(types.Block{Header: types.Header{Slot: types.TimeSlot(slot)}, Extrinsic: types.Extrinsic{Guarantees: eg}})
				cs.GetPosteriorStates().SetVarphi(argQueues)
				cs.GetPriorStates().SetAlpha(argPools)
				err = authorization.Authorization()
				got = cs.GetPosteriorStates().GetAlpha()
			} else {
				got, err = authorization.STFAlpha2AlphaPrime(types.TimeSlot(slot), eg, argPools, argQueues)
			}
		})
		d := func() map[string]any {
			m := map[string]any{"slot": slot, "cores": C, "via_singleton": viaSingleton}
			if C <= 2 {
				m["pools"] = show(pools)
				m["guarantee_authorizers"] = fmt.Sprint(gs)
				m["got"] = show(toH(got))
				m["model"] = show(want)
			}
			return m
		}
		switch {
		case p:
			m := d()
			m["panic"], m["stack"] = msg, st
			h.Viol("stf", ci, "", "authorization-panic", m)
		case err != nil:
			m := d()
			m["error"] = err.Error()
			h.Viol("stf", ci, "", "error-on-wellformed-input", m)
		case !eq(got, want):
			h.Viol("stf", ci, "", "pool-differs-from-model", d())
		}
		for c := range got {
			if len(got[c]) > O {
				h.Viol("stf", ci, "", "pool-longer-than-O", d())
			}
		}
		// queues must not be modified
		for c := range argQueues {
			for i := range argQueues[c] {
				if argQueues[c][i] != queues[c][i] {
					h.Viol("stf", ci, "", "queue-modified", d())
				}
			}
		}
		if len(gs) > 0 {
			h.Inc("with_guarantees")
		}
		for c, as := range gs {
			for _, a := range as {
				cnt := 0
				for _, x := range pools[c] {
					if x == a {
						cnt++
					}
				}
				switch {
				case cnt == 0:
					h.Inc("authorizer_absent")
				case cnt > 1:
					h.Inc("authorizer_duplicated")
				}
			}
		}
		if multi {
			h.Inc("blocks_with_several_guarantees_for_one_core")
		}
		if full {
			h.Inc("full_params")
		}
		if viaSingleton {
			h.Inc("via_singleton")
		}
		h.Distinct(show(pools), slot, fmt.Sprint(gs))
		if ci < 2 {
			h.Sample(map[string]any{"slot": slot, "pools": show(pools), "guarantees": fmt.Sprint(gs), "posterior": show(want)})
		}
	}
	types.SetTinyMode()
}

func toH(a types.AuthPools) [][]hsh {
	out := make([][]hsh, len(a))
	for i := range a {
		out[i] = a[i]
	}
	return out
}
