// C31 — historical lookup and preimage admission (DESIGN §2 C31).
//
//	lookup  : Λ(a, t, h) = a_p[h] iff h ∈ a_p ∧ I(a_l[(h, |a_p[h]|)], t), nothing otherwise — exhaustive over availability
//	          records of length 0..3 on a four-slot grid (length 4 observed, not judged: outside the record's domain),
//	          driven through service_account.HistoricalLookup and the refine host call historical_lookup.
//	admit   : a preimage extrinsic is accepted iff strictly ordered by (requester, blob) and every entry is solicited and
//	          not yet provided (lookup record empty — in the dictionary or, unparsed, as the raw key-value [0]);
//	          accepted preimages are stored with [τ'] as their availability, nothing else changes, and an entry whose
//	          request disappeared between validation and integration is skipped.
package c31

import (
	"bytes"
	"fmt"
	"sort"
	"testing"

	"github.com/New-JAMneration/JAM-Protocol/PVM"
	"github.com/New-JAMneration/JAM-Protocol/internal/accumulation"
	"github.com/New-JAMneration/JAM-Protocol/internal/blockchain"
	"github.com/New-JAMneration/JAM-Protocol/internal/service_account"
	"github.com/New-JAMneration/JAM-Protocol/internal/types"
	"github.com/New-JAMneration/JAM-Protocol/internal/utilities/hash"
	m "github.com/New-JAMneration/JAM-Protocol/internal/utilities/merklization"
	"github.com/New-JAMneration/JAM-Protocol/internal/zzverif/vh"
)

func modelI(l []uint32, t uint32) (bool, bool) { // (value, judged)
	switch len(l) {
	case 0:
		return false, true
	case 1:
		return l[0] <= t, true
	case 2:
		return l[0] <= t && t < l[1], true
	case 3:
		return (l[0] <= t && t < l[1]) || l[2] <= t, true
	}
	return false, false
}

func slots(l []uint32) types.TimeSlotSet {
	out := make(types.TimeSlotSet, len(l))
	for i, x := range l {
		out[i] = types.TimeSlot(x)
	}
	return out
}

const (
	rw0 = 0x20000
)

// hostLookup: the refine host call issued by service caller with ω7 = arg against a state holding acc under sid (and an empty
// account under caller when that is another service).
func hostLookup(acc types.ServiceAccount, sid, caller types.ServiceID, arg uint64, t types.TimeSlot, h types.OpaqueHash) (w7 uint64, out []byte, exit PVM.ExitReason) {
	mem := &PVM.Memory{Pages: map[uint32]*PVM.Page{
		rw0 / 4096:     {Value: make([]byte, 4096), Access: PVM.MemoryReadWrite},
		rw0/4096 + 1: {Value: bytes.Repeat([]byte{0xEE}, 4096), Access: PVM.MemoryReadWrite},
	}}
	copy(mem.Pages[rw0/4096].Value, h[:])
	var regs PVM.Registers
	regs[7] = arg
	regs[8], regs[9], regs[10], regs[11] = rw0, rw0+4096, 0, 4096
	gas := PVM.Gas(1000)
	delta := types.ServiceAccountState{sid: acc}
	s := caller
	own := acc
	if caller != sid {
		own = types.ServiceAccount{PreimageLookup: types.PreimagesMapEntry{}, LookupDict: types.LookupMetaMapEntry{}, StorageDict: types.Storage{}}
		delta[caller] = own
	}
	add := PVM.HostCallArgs{GeneralArgs: PVM.GeneralArgs{ServiceID: &s, ServiceAccountState: &delta, ServiceAccount: &own}}
	add.RefineArgs.TimeSlot = t
	o := PVM.RefineOmegas[PVM.HistoricalLookupOp](PVM.OmegaInput{Operation: PVM.HistoricalLookupOp,
		VM: &PVM.VMState{Registers: &regs, Memory: mem, Gas: &gas}, Addition: add, HostCalls: PVM.RefineOmegas})
	return regs[7], mem.Pages[rw0/4096+1].Value, o.ExitReason
}

func TestVerifC31(t *testing.T) {
	h := vh.Open(t, "C31")
	defer h.Done()
	types.SetTinyMode()

	// ---- lookup: exhaustive records over the grid {0,5,10,15}, t in 0..20 ---------------------------------------------
	grid := []uint32{0, 5, 10, 15}
	var recs [][]uint32
	var build func(cur []uint32, n int)
	build = func(cur []uint32, n int) {
		if len(cur) == n {
			recs = append(recs, append([]uint32(nil), cur...))
			return
		}
		for _, g := range grid {
			build(append(cur, g), n)
		}
	}
	for n := 0; n <= 4; n++ {
		build(nil, n)
	}
	for ri, rec := range recs {
		if !h.Mine("lookup", ri) {
			continue
		}
		r := h.Rng("lookup", ri)
		blob := types.ByteSequence(r.Bytes(1 + r.IntN(40)))
		hv := hash.Blake2bHash(blob)
		for variant := 0; variant < 5; variant++ {
			// 0 preimage + record under its length; 1 record only (preimage absent); 2 preimage, record under another
			// length; 3 preimage, no record at all; 4 preimage + record, queried with another hash
			acc := types.ServiceAccount{PreimageLookup: types.PreimagesMapEntry{}, LookupDict: types.LookupMetaMapEntry{}, StorageDict: types.Storage{}}
			key := types.LookupMetaMapkey{Hash: hv, Length: types.U32(len(blob))}
			present := variant != 1
			if present {
				acc.PreimageLookup[hv] = append(types.ByteSequence{}, blob...)
			}
			switch variant {
			case 0, 1, 4:
				acc.LookupDict[key] = slots(rec)
			case 2:
				acc.LookupDict[types.LookupMetaMapkey{Hash: hv, Length: key.Length + 1}] = slots(rec)
			}
			query := hv
			if variant == 4 {
				query[31] ^= 1
			}
			for tt := uint32(0); tt <= 20; tt++ {
				h.CaseLight("lookup", ri)
				val, judged := modelI(rec, tt)
				want := present && variant == 0 && val
				if variant != 0 {
					judged = true // the answer is "nothing" whatever the record says
				}
				var got types.ByteSequence
				if pn, msg, st := vh.Guard(func() { got = service_account.HistoricalLookup(acc, types.TimeSlot(tt), query) }); pn {
					h.Viol("lookup", ri, "", "historical lookup panicked", map[string]any{"record": fmt.Sprint(rec), "t": tt, "variant": variant, "panic": msg, "stack": st})
					continue
				}
				d := map[string]any{"record": fmt.Sprint(rec), "t": tt, "variant": variant, "preimage_len": len(blob), "returned_len": len(got), "returned_nil": got == nil}
				if !judged {
					h.Inc("lookups_with_record_longer_than_3_not_judged")
				} else {
					switch {
					case want && !bytes.Equal(got, blob):
						h.Viol("lookup", ri, "", "lookup: available preimage not returned", d)
					case !want && got != nil:
						h.Viol("lookup", ri, "", "lookup: preimage returned although it is not stored or t is outside its availability", d)
					}
					if want {
						h.Inc("lookups_returning_the_preimage")
					} else {
						h.Inc("lookups_returning_nothing")
					}
				}
				// the same through the refine host call (own service via 2^64-1, or by id)
				if tt%3 == 0 && judged {
					// the service: small ids and the ends of the 32-bit range; addressed as "self" (2^64-1), by its id from itself, by
					// its id from another service, or by a 64-bit value whose low half is its id (names no service: NONE)
					sid := []types.ServiceID{7, 8, 9, 0, 255, 65536, 0x7FFFFFFF, 0x80000000, 0xFFFFFFFE, 0xFFFFFFFF}[(ri+int(tt/3))%10]
					caller, arg, hostWant := sid, uint64(sid), want
					switch (ri/10 + int(tt/3)) % 4 {
					case 0:
						arg = ^uint64(0)
					case 1:
					case 2:
						caller = sid ^ 0x55
					default:
						arg = uint64(sid) | uint64(1+r.IntN(0xFFFFFFFE))<<32
						hostWant = false
						if r.Bool() {
							caller = sid ^ 0x55
						}
						h.Inc("host_call_lookups_naming_a_service_outside_the_32_bit_range")
					}
					d["service"], d["caller"], d["w7_in"] = sid, caller, fmt.Sprintf("%#x", arg)
					var w7 uint64
					var out []byte
					var ex PVM.ExitReason
					if pn, msg, st := vh.Guard(func() { w7, out, ex = hostLookup(acc, sid, caller, arg, types.TimeSlot(tt), query) }); pn {
						d["panic"], d["stack"] = msg, st
						h.Viol("lookup", ri, "", "historical_lookup host call panicked", d)
						continue
					}
					d["w7"], d["exit"] = fmt.Sprintf("%#x", w7), ex.String()
					switch {
					case ex != PVM.ExitContinue:
						h.Viol("lookup", ri, "", "historical_lookup host call did not continue on readable/writable ranges", d)
					case hostWant && (w7 != uint64(len(blob)) || !bytes.Equal(out[:len(blob)], blob) || out[len(blob)] != 0xEE):
						h.Viol("lookup", ri, "", "historical_lookup host call: available preimage not delivered", d)
					case !hostWant && (w7 != PVM.NONE || out[0] != 0xEE):
						h.Viol("lookup", ri, "", "historical_lookup host call: answered although nothing is available", d)
					}
					h.Inc("host_call_lookups")
				}
			}
		}
		h.Distinct("rec", fmt.Sprint(rec))
	}

	// ---- admission and integration ----------------------------------------------------------------------------------------
	n := h.N(30000, 600000)
	for ci := 0; ci < n; ci++ {
		if !h.Mine("admit", ci) {
			continue
		}
		h.CaseLight("admit", ci)
		admitCase(h, ci, h.Rng("admit", ci))
	}
}

type req struct {
	svc  types.ServiceID
	blob []byte
	kind string // solicited-dict, solicited-raw, unsolicited, provided, unknown-service, raw-nonempty, other-length
}

func admitCase(h *vh.H, ci int, r vh.R) {
	tauP := types.TimeSlot(100 + r.IntN(1000))
	delta := types.ServiceAccountState{}
	raw := types.StateKeyVals{}
	nsvc := 1 + r.IntN(4)
	var svcs []types.ServiceID
	for len(svcs) < nsvc {
		id := types.ServiceID([]uint32{0, 1, 2, 255, 256, 1000, 0xFFFFFFFF}[r.IntN(7)])
		if _, ok := delta[id]; ok {
			continue
		}
		delta[id] = types.ServiceAccount{PreimageLookup: types.PreimagesMapEntry{}, LookupDict: types.LookupMetaMapEntry{}, StorageDict: types.Storage{}}
		svcs = append(svcs, id)
	}
	// some unrelated raw entries (storage of the services) so that the pool is never trivially empty
	rawKeys := map[types.StateKey]bool{} // one state key appears once in a state
	for i := 0; i < r.IntN(4); i++ {
		kv := m.WrapEncodeDelta2KeyVal(svcs[r.IntN(len(svcs))], r.Bytes(1+r.IntN(5)), r.Bytes(r.IntN(20)))
		if !rawKeys[kv.Key] {
			rawKeys[kv.Key] = true
			raw = append(raw, kv)
		}
	}
	var pool []req
	blobFamily := [][]byte{{}, {0}, {0, 0}, {1}, {1, 0}, {0xFF}, {0xFF, 0}}
	mkBlob := func() []byte {
		if r.IntN(3) == 0 {
			return append([]byte(nil), blobFamily[r.IntN(len(blobFamily))]...)
		}
		return r.Bytes(1 + r.IntN(12))
	}
	nreq := 1 + r.IntN(6)
	seen := map[string]bool{}
	for len(pool) < nreq {
		q := req{svc: svcs[r.IntN(len(svcs))], blob: mkBlob()}
		k := fmt.Sprintf("%d/%x", q.svc, q.blob)
		if seen[k] {
			continue
		}
		seen[k] = true
		hv := hash.Blake2bHash(q.blob)
		key := types.LookupMetaMapkey{Hash: hv, Length: types.U32(len(q.blob))}
		acc := delta[q.svc]
		switch r.IntN(12) {
		case 0:
			q.kind = "unsolicited"
		case 1:
			q.kind = "provided"
			acc.PreimageLookup[hv] = q.blob
			acc.LookupDict[key] = types.TimeSlotSet{types.TimeSlot(r.IntN(90))}
		case 2:
			q.kind = "unknown-service"
			q.svc = types.ServiceID(5000 + r.IntN(5))
		case 3:
			q.kind = "raw-nonempty" // unparsed record that already holds a slot: provided
			raw = append(raw, m.EncodeDelta4KeyVal(q.svc, key, types.TimeSlotSet{types.TimeSlot(r.IntN(90))}))
		case 4:
			q.kind = "other-length" // solicited under another length only
			acc.LookupDict[types.LookupMetaMapkey{Hash: hv, Length: key.Length + 1}] = types.TimeSlotSet{}
		case 5, 6, 7:
			q.kind = "solicited-raw"
			raw = append(raw, m.EncodeDelta4KeyVal(q.svc, key, types.TimeSlotSet{}))
		default:
			q.kind = "solicited-dict"
			acc.LookupDict[key] = types.TimeSlotSet{}
		}
		pool = append(pool, q)
	}
	raw = vh.Shuffled(r, raw)
	// the extrinsic: sorted by (requester, blob), then possibly disturbed
	eps := make(types.PreimagesExtrinsic, 0, len(pool))
	for _, q := range pool {
		eps = append(eps, types.Preimage{Requester: q.svc, Blob: append(types.ByteSequence{}, q.blob...)})
	}
	sort.Slice(eps, func(i, j int) bool {
		if eps[i].Requester != eps[j].Requester {
			return eps[i].Requester < eps[j].Requester
		}
		return bytes.Compare(eps[i].Blob, eps[j].Blob) < 0
	})
	disturb := "sorted"
	if len(eps) >= 2 {
		switch r.IntN(8) {
		case 0:
			i := r.IntN(len(eps) - 1)
			eps[i], eps[i+1] = eps[i+1], eps[i]
			disturb = "neighbours swapped"
		case 1:
			i := r.IntN(len(eps))
			dup := types.Preimage{Requester: eps[i].Requester, Blob: append(types.ByteSequence{}, eps[i].Blob...)}
			eps = append(eps[:i+1], append(types.PreimagesExtrinsic{dup}, eps[i+1:]...)...)
			disturb = "entry duplicated"
		case 2:
			eps = vh.Shuffled(r, eps)
			disturb = "shuffled"
		}
	}
	// model: ordering, then need
	ordered := true
	for i := 1; i < len(eps); i++ {
		a, b := eps[i-1], eps[i]
		if a.Requester > b.Requester || (a.Requester == b.Requester && bytes.Compare(a.Blob, b.Blob) >= 0) {
			ordered = false
		}
	}
	kindOf := map[string]string{}
	for _, q := range pool {
		kindOf[fmt.Sprintf("%d/%x", q.svc, q.blob)] = q.kind
	}
	needed := true
	var kinds []string
	for _, e := range eps {
		k := kindOf[fmt.Sprintf("%d/%x", e.Requester, []byte(e.Blob))]
		kinds = append(kinds, k)
		if k != "solicited-dict" && k != "solicited-raw" {
			needed = false
		}
	}
	wantAccept := ordered && needed
	d := map[string]any{"entries": len(eps), "order": disturb, "kinds": fmt.Sprint(kinds), "tau_prime": tauP, "model_accepts": wantAccept}

	// snapshot of the inputs (the validation must not modify them)
	deltaArg := deepDelta(delta)
	rawArg := raw.DeepCopy()
	var err error
	if pn, msg, st := vh.Guard(func() { err = accumulation.ValidatePreimageExtrinsics(eps, deltaArg, &rawArg) }); pn {
		d["panic"], d["stack"] = msg, st
		h.Viol("admit", ci, "", "preimage validation panicked", d)
		return
	}
	d["error"] = fmt.Sprint(err)
	switch {
	case wantAccept && err != nil:
		h.Viol("admit", ci, "", "admission: an admissible preimage extrinsic is rejected", d)
		return
	case !wantAccept && err == nil:
		h.Viol("admit", ci, "", "admission: accepted although not strictly ordered, unsolicited or already provided", d)
		return
	}
	if !sameDelta(deltaArg, delta) || !sameKV(rawArg, raw) {
		h.Viol("admit", ci, "", "admission: validation modified the state it was given", d)
		return
	}
	h.Inc("extrinsics_" + map[bool]string{true: "accepted", false: "rejected"}[wantAccept])
	if !ordered {
		h.Inc("rejected_for_order")
	} else if !needed {
		h.Inc("rejected_for_need")
	}
	h.Distinct(fmt.Sprint(kinds), disturb, len(eps))
	if !wantAccept {
		return
	}

	// integration on the singleton; in every 4th case one request disappears between validation and integration
	// (accumulation provided or forgot it): that entry must be skipped silently and everything else integrated
	dd := deepDelta(delta)
	ddRaw := raw.DeepCopy()
	vanished := -1
	if ci%4 == 0 {
		vanished = r.IntN(len(eps))
		e := eps[vanished]
		key := types.LookupMetaMapkey{Hash: hash.Blake2bHash(e.Blob), Length: types.U32(len(e.Blob))}
		if kinds[vanished] == "solicited-dict" {
			if r.Bool() {
				delete(dd[e.Requester].LookupDict, key) // forgotten
			} else {
				dd[e.Requester].LookupDict[key] = types.TimeSlotSet{tauP - 1} // provided during accumulation
				dd[e.Requester].PreimageLookup[key.Hash] = append(types.ByteSequence{}, e.Blob...)
			}
		} else {
			sk := m.EncodeDelta4Key(e.Requester, key)
			for i := range ddRaw {
				if ddRaw[i].Key == sk {
					ddRaw = append(ddRaw[:i:i], ddRaw[i+1:]...)
					break
				}
			}
		}
	}
	want := deepDelta(dd)
	wantRaw := map[types.StateKey][]byte{}
	for _, kv := range ddRaw {
		wantRaw[kv.Key] = kv.Value
	}
	for i, e := range eps {
		if i == vanished {
			continue
		}
		key := types.LookupMetaMapkey{Hash: hash.Blake2bHash(e.Blob), Length: types.U32(len(e.Blob))}
		want[e.Requester].PreimageLookup[key.Hash] = e.Blob
		want[e.Requester].LookupDict[key] = types.TimeSlotSet{tauP}
		delete(wantRaw, m.EncodeDelta4Key(e.Requester, key)) // the unparsed record moves into the dictionary
	}
	var got types.ServiceAccountState
	var gotRaw types.StateKeyVals
	if pn, msg, st := vh.Guard(func() {
		blockchain.ResetInstance()
		cs := blockchain.GetInstance()
		cs.AddBlock(types.Block{Header: types.Header{Slot: tauP}, Extrinsic: types.Extrinsic{Preimages: eps}})
		cs.GetIntermediateStates().SetDeltaDoubleDagger(dd)
		cs.GetPosteriorStates().SetTau(tauP)
		cs.SetPostStateUnmatchedKeyVals(ddRaw.DeepCopy())
		err = accumulation.ProcessPreimageExtrinsics()
		got = cs.GetPosteriorStates().GetDelta()
		gotRaw = cs.GetPostStateUnmatchedKeyVals()
	}); pn {
		d["panic"], d["stack"] = msg, st
		h.Viol("admit", ci, "", "preimage integration panicked", d)
		return
	}
	d["vanished_entry"] = vanished
	if err != nil {
		d["error"] = err.Error()
		h.Viol("admit", ci, "", "integration: error on an accepted extrinsic", d)
		return
	}
	if df := diffDelta(want, got); df != "" {
		d["difference"] = df
		h.Viol("admit", ci, "", "integration: posterior accounts differ from the model (preimage stored with [tau'] as availability, nothing else changed)", d)
		return
	}
	gm := map[types.StateKey][]byte{}
	for _, kv := range gotRaw {
		if _, dup := gm[kv.Key]; dup {
			h.Viol("admit", ci, "", "integration: duplicate key in the raw key-values", d)
			return
		}
		gm[kv.Key] = kv.Value
	}
	if len(gm) != len(wantRaw) {
		d["raw_len"], d["raw_want"] = len(gm), len(wantRaw)
		h.Viol("admit", ci, "", "integration: raw key-values differ from the model (the unparsed request of an integrated preimage must leave the pool, nothing else)", d)
		return
	}
	for k, v := range wantRaw {
		if w, ok := gm[k]; !ok || !bytes.Equal(v, w) {
			h.Viol("admit", ci, "", "integration: raw key-values differ from the model (the unparsed request of an integrated preimage must leave the pool, nothing else)", d)
			return
		}
	}
	h.Inc("integrations")
	h.Count("preimages_integrated", int64(len(eps)-b2i(vanished >= 0)))
	if vanished >= 0 {
		h.Inc("integrations_with_a_vanished_request")
	}
	for _, k := range kinds {
		if k == "solicited-raw" {
			h.Inc("preimages_solicited_only_in_raw_key_values")
		}
	}
	if ci < 3 {
		h.Sample(d)
	}
}

func b2i(b bool) int {
	if b {
		return 1
	}
	return 0
}

func deepDelta(d types.ServiceAccountState) types.ServiceAccountState {
	out := types.ServiceAccountState{}
	for id, a := range d {
		c := types.ServiceAccount{ServiceInfo: a.ServiceInfo, PreimageLookup: types.PreimagesMapEntry{}, LookupDict: types.LookupMetaMapEntry{}, StorageDict: types.Storage{}}
		for k, v := range a.PreimageLookup {
			c.PreimageLookup[k] = append(types.ByteSequence{}, v...)
		}
		for k, v := range a.LookupDict {
			c.LookupDict[k] = append(types.TimeSlotSet{}, v...)
		}
		for k, v := range a.StorageDict {
			c.StorageDict[k] = append(types.ByteSequence{}, v...)
		}
		out[id] = c
	}
	return out
}

func diffDelta(a, b types.ServiceAccountState) string {
	if len(a) != len(b) {
		return fmt.Sprintf("%d accounts vs %d", len(a), len(b))
	}
	for id, x := range a {
		y, ok := b[id]
		if !ok {
			return fmt.Sprintf("service %d missing", id)
		}
		if x.ServiceInfo != y.ServiceInfo {
			return fmt.Sprintf("service %d: info differs", id)
		}
		if len(x.PreimageLookup) != len(y.PreimageLookup) {
			return fmt.Sprintf("service %d: %d preimages vs %d", id, len(x.PreimageLookup), len(y.PreimageLookup))
		}
		for k, v := range x.PreimageLookup {
			if w, ok := y.PreimageLookup[k]; !ok || !bytes.Equal(v, w) {
				return fmt.Sprintf("service %d: preimage %x differs or is missing", id, k[:4])
			}
		}
		if len(x.LookupDict) != len(y.LookupDict) {
			return fmt.Sprintf("service %d: %d lookup records vs %d", id, len(x.LookupDict), len(y.LookupDict))
		}
		for k, v := range x.LookupDict {
			w, ok := y.LookupDict[k]
			if !ok || len(v) != len(w) {
				return fmt.Sprintf("service %d: record (%x,%d) = %v, model %v (present %v)", id, k.Hash[:4], k.Length, w, v, ok)
			}
			for i := range v {
				if v[i] != w[i] {
					return fmt.Sprintf("service %d: record (%x,%d) = %v, model %v", id, k.Hash[:4], k.Length, w, v)
				}
			}
		}
		if len(x.StorageDict) != len(y.StorageDict) {
			return fmt.Sprintf("service %d: storage differs", id)
		}
	}
	return ""
}

func sameDelta(a, b types.ServiceAccountState) bool { return diffDelta(a, b) == "" && diffDelta(b, a) == "" }

func sameKV(a, b types.StateKeyVals) bool {
	if len(a) != len(b) {
		return false
	}
	for i := range a {
		if a[i].Key != b[i].Key || !bytes.Equal(a[i].Value, b[i].Value) {
			return false
		}
	}
	return true
}
