package telemetry

// C28 — telemetry stream stays aligned with event IDs (DESIGN §2 C28).
//
// The real tcpClient runs over an in-memory, fault-injecting net.Conn installed through tcpClient.dialer. Emitters
// (goroutines) tag every payload with (emitter, counter) and remember the ID each Emit* call returned. A script
// injects write errors, partial writes, stalls (writes parked on a channel the harness controls), peer closes and
// failing dials; Close races with the emitters in part of the runs. After the run the bytes captured per connection
// are parsed by a receiver model (first frame = node info, then u32-length frames; a receiver counter starts at 0,
// a Dropped record advances it by its count, every other frame is a delivered event with the counter's value as its
// implicit ID) and compared with what the emitters were told:
//
//	aligned     seq(ID the emitter received) == implicit ID, for every delivered event
//	one epoch   all events delivered on one connection carry the same epoch; epochs grow from connection to connection
//	exactly     a tag is delivered at most once; an event whose emitter got InvalidID never appears
//	follow-up   a follow-up that was accepted has the epoch of its parent, and the wire carries the parent's seq
//	non-block   every Emit* call made while the connection's Write is parked returns before the harness releases it
//
// Built with the race detector.

import (
	"bytes"
	"context"
	"encoding/binary"
	"errors"
	"fmt"
	"io"
	"log"
	"net"
	"runtime"
	"strings"
	"sync"
	"sync/atomic"
	"testing"
	"time"

	"github.com/New-JAMneration/JAM-Protocol/internal/zzverif/vh"
)

// ---- fault-injecting connection -------------------------------------------------------------------------------------

type v28Conn struct {
	mu       sync.Mutex
	captured bytes.Buffer
	closed   chan struct{}
	once     sync.Once
	// fault script, evaluated per Write call
	failAfter  int64 // fail the write that would push the accepted byte count past this (-1: never)
	partial    bool  // accept at most `chunk` bytes per call
	chunk      int
	parked     chan struct{} // non-nil: writes block until it is closed (stall)
	parkedSeen atomic.Int64  // writes that found the gate closed
	accepted   int64
	peerClose  chan struct{} // closed by the harness: Read returns EOF
	index      int
	endedByErr atomic.Bool
	faulted    atomic.Bool // the harness injected a fault on this connection (write error, peer close)
	epoch      uint16      // the sender's epoch when the connection was dialled
}

func (c *v28Conn) Write(b []byte) (int, error) {
	c.mu.Lock()
	gate := c.parked
	c.mu.Unlock()
	if gate != nil {
		c.parkedSeen.Add(1)
		select {
		case <-gate:
		case <-c.closed:
			return 0, net.ErrClosed
		}
	}
	select {
	case <-c.closed:
		return 0, net.ErrClosed
	default:
	}
	c.mu.Lock()
	defer c.mu.Unlock()
	n := len(b)
	if c.partial && n > c.chunk {
		n = c.chunk
		if len(b) > 256 { // large writes are still split, into a few dozen pieces rather than tens of thousands
			n = max(c.chunk, len(b)/(16+c.chunk))
		}
	}
	if c.failAfter >= 0 && c.accepted+int64(n) > c.failAfter {
		k := int(c.failAfter - c.accepted)
		if k < 0 {
			k = 0
		}
		c.captured.Write(b[:k])
		c.accepted += int64(k)
		c.endedByErr.Store(true)
		return k, errors.New("v28: injected write error")
	}
	c.captured.Write(b[:n])
	c.accepted += int64(n)
	return n, nil
}

func (c *v28Conn) Read(b []byte) (int, error) {
	select {
	case <-c.closed:
		return 0, net.ErrClosed
	case <-c.peerClose:
		c.endedByErr.Store(true)
		return 0, io.EOF
	}
}

func (c *v28Conn) Close() error                     { c.once.Do(func() { close(c.closed) }); return nil }
func (c *v28Conn) LocalAddr() net.Addr              { return &net.TCPAddr{} }
func (c *v28Conn) RemoteAddr() net.Addr             { return &net.TCPAddr{} }
func (c *v28Conn) SetDeadline(time.Time) error      { return nil }
func (c *v28Conn) SetReadDeadline(time.Time) error  { return nil }
func (c *v28Conn) SetWriteDeadline(time.Time) error { return nil }
func (c *v28Conn) bytesCopy() []byte {
	c.mu.Lock()
	defer c.mu.Unlock()
	return append([]byte(nil), c.captured.Bytes()...)
}
func (c *v28Conn) park() { c.mu.Lock(); c.parked = make(chan struct{}); c.mu.Unlock() }
func (c *v28Conn) release() {
	c.mu.Lock()
	g := c.parked
	c.parked = nil
	c.mu.Unlock()
	if g != nil {
		close(g)
	}
}
func (c *v28Conn) setFailAfterMore(k int64) {
	c.faulted.Store(true)
	c.mu.Lock()
	c.failAfter = c.accepted + k
	c.mu.Unlock()
}

// ---- emitter records ----------------------------------------------------------------------------------------------------

type v28Rec struct {
	tag      uint64 // emitter<<32 | counter
	id       uint64
	parent   uint64 // 0 = not a follow-up
	followup bool
	extra    int // payload octets after the 8-octet tag
}

func v28Payload(tag uint64, extra int) []byte {
	b := make([]byte, 8+extra)
	binary.LittleEndian.PutUint64(b, tag)
	for i := 8; i < len(b); i++ {
		b[i] = byte(tag) + byte(i)
	}
	return b
}

type v28Obs struct {
	conns, reconnects, dropRecords, droppedEvents, delivered, followupsDelivered, parkedEmits, closeRaces, dialFailures int
	invalid, cleanEnds, emptyDelivered, largeEmitted, forcedCloses                                                      int
}

// v28Scenario runs one scenario and returns a violation description ("" = held) with details.
func v28Scenario(r vh.R, obs *v28Obs) (string, map[string]any) {
	nodeInfo := sampleNodeInfoV28()
	niBytes, _ := nodeInfo.Encode()
	bufSize := []int{1, 2, 8, 64}[r.IntN(4)]
	emitters := 1 + r.IntN(12)
	perEmitter := 40 + r.IntN(160)
	closeRace := r.IntN(3) == 0
	var connsMu sync.Mutex
	var conns []*v28Conn
	dialFailLeft := r.IntN(3)
	scriptSeed := r.Uint64()
	cfg := Config{Endpoint: "v28", NodeInfo: nodeInfo, BufferSize: bufSize, ReconnectMin: time.Millisecond, ReconnectMax: 2 * time.Millisecond,
		CloseTimeout: 30 * time.Second, TailDropInterval: time.Millisecond}
	cli, err := newTCPClient(cfg)
	if err != nil {
		return "client construction failed", map[string]any{"err": err.Error()}
	}
	cli.dialer = func(ctx context.Context, addr string) (net.Conn, error) {
		connsMu.Lock()
		defer connsMu.Unlock()
		if dialFailLeft > 0 && len(conns) > 0 {
			dialFailLeft--
			obs.dialFailures++
			return nil, errors.New("v28: injected dial failure")
		}
		sr := vh.NewR(scriptSeed, uint64(len(conns)))
		c := &v28Conn{closed: make(chan struct{}), peerClose: make(chan struct{}), failAfter: -1, index: len(conns)}
		if sr.IntN(3) == 0 {
			c.partial, c.chunk = true, 1+sr.IntN(7)
		}
		if sr.IntN(6) == 0 { // fails inside the node-info frame or shortly after
			c.failAfter = int64(sr.IntN(len(niBytes) + 40))
			c.faulted.Store(true)
		}
		c.epoch, _ = cli.seq.snapshot()
		conns = append(conns, c)
		return c, nil
	}
	cli.start()
	deadline := time.Now().Add(20 * time.Second)
	for !cli.Enabled() && time.Now().Before(deadline) {
		time.Sleep(200 * time.Microsecond)
	}
	current := func() *v28Conn {
		connsMu.Lock()
		defer connsMu.Unlock()
		if len(conns) == 0 {
			return nil
		}
		return conns[len(conns)-1]
	}

	var lastID atomic.Uint64 // a recent valid ID of any emitter (parent candidate across emitters)
	var largeEvents atomic.Int64
	var emptyMu sync.Mutex
	emptyIDs := map[uint64]uint8{} // IDs handed out for payload-less events -> discriminator
	recs := make([][]v28Rec, emitters)
	var wg sync.WaitGroup
	var emitting atomic.Int64
	stop := make(chan struct{})
	for e := 0; e < emitters; e++ {
		wg.Add(1)
		go func(e int) {
			defer wg.Done()
			er := vh.NewR(scriptSeed^0x5bd1e995, uint64(e))
			var own uint64
			for k := 0; k < perEmitter; k++ {
				select {
				case <-stop:
					return
				default:
				}
				tag := uint64(e+1)<<32 | uint64(k)
				rec := v28Rec{tag: tag}
				extra := er.IntN(24)
				switch er.IntN(40) {
				case 0:
					extra = 4080 + er.IntN(24) // around 4096 octets of payload (8-octet tag included)
				case 1:
					extra = 5000 + er.IntN(70000) // large payloads: the frame length prefix covers them too
				}
				if extra > 1000 {
					largeEvents.Add(1)
				}
				rec.extra = extra
				pl := v28Payload(tag, extra)
				emitting.Add(1)
				if er.IntN(10) == 0 {
					// an event without payload: a lazy builder that returns nil or an empty slice, or an eager nil / empty payload. It still
					// has an ID, so it still has to occupy one position of the stream (a header-only frame, or a Dropped record).
					var id uint64
					disc := uint8(251 + er.IntN(4))
					switch disc {
					case 251:
						id = cli.EmitLazy(disc, func() []byte { return nil })
					case 252:
						id = cli.Emit(disc, nil)
					case 253:
						id = cli.EmitLazy(disc, func() []byte { return []byte{} })
					default:
						id = cli.Emit(disc, []byte{})
					}
					emitting.Add(-1)
					if id != InvalidID {
						emptyMu.Lock()
						emptyIDs[id] = disc
						emptyMu.Unlock()
						own = id
						lastID.Store(id)
					}
					continue
				}
				switch er.IntN(6) {
				case 0:
					rec.id = cli.EmitLazy(uint8(1+er.IntN(200)), func() []byte { return pl })
				case 1, 2:
					parent := own
					if er.Bool() {
						parent = lastID.Load()
					}
					if parent == 0 {
						parent = InvalidID
					}
					rec.followup, rec.parent = true, parent
					if er.Bool() {
						rec.id = cli.EmitFollowup(uint8(1+er.IntN(200)), parent, pl)
					} else {
						rec.id = cli.EmitFollowupLazy(uint8(1+er.IntN(200)), parent, func() []byte { return pl })
					}
				default:
					rec.id = cli.Emit(uint8(1+er.IntN(200)), pl)
				}
				emitting.Add(-1)
				if rec.id != InvalidID {
					own = rec.id
					lastID.Store(rec.id)
				}
				recs[e] = append(recs[e], rec)
				if er.IntN(4) == 0 {
					runtime.Gosched()
				}
				if er.IntN(50) == 0 {
					time.Sleep(time.Duration(er.IntN(300)) * time.Microsecond)
				}
			}
		}(e)
	}

	// fault injector
	injDone := make(chan struct{})
	var blockedViolation atomic.Value
	go func() {
		defer close(injDone)
		ir := vh.NewR(scriptSeed^0x9e3779b9, 7)
		for i := 0; i < 4+ir.IntN(10); i++ {
			time.Sleep(time.Duration(100+ir.IntN(1500)) * time.Microsecond)
			c := current()
			if c == nil {
				continue
			}
			switch ir.IntN(5) {
			case 0: // write error after a few more bytes (possibly inside a frame)
				c.setFailAfterMore(int64(ir.IntN(200)))
			case 1: // peer closes
				c.faulted.Store(true)
				select {
				case <-c.peerClose:
				default:
					close(c.peerClose)
				}
			case 2, 3: // stall: park writes; emitters must keep returning while the writer is stuck
				c.park()
				t0 := time.Now()
				for c.parkedSeen.Load() == 0 && time.Since(t0) < 20*time.Millisecond {
					time.Sleep(50 * time.Microsecond)
				}
				if c.parkedSeen.Load() > 0 {
					// the writer is blocked inside Write now: run a burst of emits from here and watch them return
					done := make(chan int, 1)
					go func() {
						n := 0
						var last uint64 = InvalidID
						for k := 0; k < 3*bufSize+8; k++ {
							pl := v28Payload(uint64(0xEEEE)<<32|uint64(i)<<16|uint64(k), 0)
							switch k % 4 {
							case 1:
								cli.EmitLazy(250, func() []byte { return pl })
							case 2:
								cli.EmitFollowup(250, last, pl)
							default:
								if id := cli.Emit(250, pl); id != InvalidID {
									last = id
								}
							}
							n++
						}
						done <- n
					}()
					select {
					case n := <-done:
						obs.parkedEmits += n
					case <-time.After(300 * time.Second):
						blockedViolation.Store("Emit* did not return within 300 s while the connection's Write was stalled")
					}
				}
				c.release()
			default:
			}
		}
	}()

	closeForced := false
	timedClose := func() {
		t0 := time.Now()
		cli.Close()
		if time.Since(t0) > 25*time.Second {
			closeForced = true // Close gave up waiting (its timeout is 30 s here) and cut the connection: queued events are lost by design
		}
	}
	if closeRace {
		time.Sleep(time.Duration(r.IntN(3000)) * time.Microsecond)
		obs.closeRaces++
		timedClose()
		close(stop)
	}
	wgDone := make(chan struct{})
	go func() { wg.Wait(); close(wgDone) }()
	select {
	case <-wgDone:
	case <-time.After(300 * time.Second):
		return "emitters did not finish within 300 s (an Emit call is blocked)", map[string]any{"emitting_now": emitting.Load(), "buffer": bufSize, "emitters": emitters}
	}
	<-injDone
	if c := current(); c != nil {
		c.release()
	}
	if !closeRace {
		time.Sleep(time.Duration(r.IntN(2000)) * time.Microsecond)
		timedClose()
	}
	if closeForced {
		obs.forcedCloses++
	}
	if v := blockedViolation.Load(); v != nil {
		return v.(string), map[string]any{"buffer": bufSize, "emitters": emitters}
	}

	obs.largeEmitted += int(largeEvents.Load())
	// ---- receiver model over the captured streams ---------------------------------------------------------------------
	emitted := map[uint64]v28Rec{}
	for _, rs := range recs {
		for _, rc := range rs {
			emitted[rc.tag] = rc
			if rc.id == InvalidID {
				obs.invalid++
			}
			if rc.followup && rc.id != InvalidID {
				if rc.parent == InvalidID {
					return "a follow-up with an invalid parent was accepted", map[string]any{"tag": fmt.Sprintf("%x", rc.tag)}
				}
				if eventIDEpoch(rc.parent) != eventIDEpoch(rc.id) {
					return "follow-up accepted with a parent from another connection (epoch differs)",
						map[string]any{"parent_epoch": eventIDEpoch(rc.parent), "child_epoch": eventIDEpoch(rc.id), "tag": fmt.Sprintf("%x", rc.tag)}
				}
			}
		}
	}
	connsMu.Lock()
	all := append([]*v28Conn(nil), conns...)
	connsMu.Unlock()
	obs.conns += len(all)
	if len(all) > 1 {
		obs.reconnects += len(all) - 1
	}
	seenTag := map[uint64]bool{}
	lastEpoch := uint16(0)
	finalEpoch, finalNextSeq := cli.seq.snapshot()
	for ci, c := range all {
		data := c.bytesCopy()
		if ci != len(all)-1 && !c.faulted.Load() {
			// connections end because the harness broke them or because of Close (the last one). A healthy connection
			// that the client gave up means its writer found the stream it was producing out of step with the IDs.
			return "the client abandoned a connection on which no fault was injected (its writer lost alignment)",
				map[string]any{"connection": ci, "connections": len(all), "buffer": bufSize, "emitters": emitters, "captured_bytes": len(data)}
		}
		d := map[string]any{"connection": ci, "connections": len(all), "buffer": bufSize, "emitters": emitters, "captured_bytes": len(data), "ended_by_fault": c.endedByErr.Load()}
		frames, truncated := v28Frames(data)
		if truncated && !c.endedByErr.Load() && ci != len(all)-1 {
			// a stream may only end inside a frame when the connection died (or Close forced it)
			return "stream ends inside a frame although the connection did not fail", d
		}
		if len(frames) == 0 {
			continue
		}
		if !bytes.Equal(frames[0], niBytes) {
			d["first_frame"] = fmt.Sprintf("%x", frames[0][:min(len(frames[0]), 32)])
			return "stream does not start with the node-information frame", d
		}
		counter := uint64(0)
		connEpoch := uint16(0)
		for fi, f := range frames[1:] {
			d["frame"] = fi + 1
			if len(f) < 9 {
				return "malformed frame (shorter than timestamp + discriminator)", d
			}
			disc := f[8]
			body := f[9:]
			if disc == 0 {
				if len(body) != 16 {
					return "malformed Dropped record", d
				}
				cnt := binary.LittleEndian.Uint64(body[8:])
				if cnt == 0 {
					return "Dropped record with count 0", d
				}
				counter += cnt
				obs.dropRecords++
				obs.droppedEvents += int(cnt)
				continue
			}
			var tag, parentSeq uint64
			isFollow := false
			if disc == 250 { // the stall burst: not tracked per tag
				counter++
				obs.delivered++
				continue
			}
			if disc >= 251 && disc <= 254 { // payload-less event: identified by its position alone
				if len(body) != 0 {
					return "a payload-less event arrived with a payload", d
				}
				found := false
				for id, dd := range emptyIDs {
					if eventIDSeq(id) == counter && dd == disc && (connEpoch == 0 || eventIDEpoch(id) == connEpoch) {
						found = true
						if connEpoch != 0 { // (before the connection's epoch is known the match is by position and kind only)
							delete(emptyIDs, id)
						}
						break
					}
				}
				d["receiver_implicit_id"], d["disc"] = counter, disc
				if !found {
					return "alignment: a payload-less event arrived at a position whose ID no emitter of such an event was given", d
				}
				counter++
				obs.delivered++
				obs.emptyDelivered++
				continue
			}
			if len(body) < 8 {
				return "malformed event payload", d
			}
			tag = binary.LittleEndian.Uint64(body)
			rc, ok := emitted[tag]
			if !ok && len(body) >= 16 { // follow-up: parent seq precedes the tag
				parentSeq = binary.LittleEndian.Uint64(body)
				tag = binary.LittleEndian.Uint64(body[8:])
				rc, ok = emitted[tag]
				isFollow = ok
			}
			d["tag"] = fmt.Sprintf("%x", tag)
			if !ok {
				return "a delivered event carries a payload no emitter sent (or the emitter had not returned)", d
			}
			// the whole payload, not only its tag: the frame's length prefix must cover exactly what the emitter handed over
			wirePayload := body
			if isFollow {
				wirePayload = body[8:]
			}
			if want := v28Payload(tag, rc.extra); !bytes.Equal(wirePayload, want) {
				d["payload_len_on_the_wire"], d["payload_len_emitted"] = len(wirePayload), len(want)
				return "a delivered event's payload differs from what its emitter handed over (length prefix or content)", d
			}
			if rc.followup != isFollow {
				return "follow-up framing differs from what the emitter called", d
			}
			if seenTag[tag] {
				return "an event was delivered twice", d
			}
			seenTag[tag] = true
			if rc.id == InvalidID {
				return "an event was delivered although its emitter was told it was not accepted (InvalidID)", d
			}
			d["emitter_id_seq"], d["emitter_id_epoch"], d["receiver_implicit_id"] = eventIDSeq(rc.id), eventIDEpoch(rc.id), counter
			if eventIDSeq(rc.id) != counter {
				return "alignment: the receiver's implicit ID differs from the ID the emitter received", d
			}
			if connEpoch == 0 {
				connEpoch = eventIDEpoch(rc.id)
				if connEpoch <= lastEpoch {
					d["previous_connection_epoch"] = lastEpoch
					return "epochs do not grow from one connection to the next", d
				}
			} else if eventIDEpoch(rc.id) != connEpoch {
				d["connection_epoch"] = connEpoch
				return "events of two epochs were delivered on one connection", d
			}
			if isFollow {
				if parentSeq != eventIDSeq(rc.parent) {
					d["wire_parent_seq"], d["parent_seq"] = parentSeq, eventIDSeq(rc.parent)
					return "follow-up carries another parent on the wire than the emitter named", d
				}
				obs.followupsDelivered++
			}
			counter++
			obs.delivered++
		}
		if connEpoch != 0 {
			lastEpoch = connEpoch
			if connEpoch != c.epoch {
				d["epoch_at_dial"], d["connection_epoch"] = c.epoch, connEpoch
				return "events delivered on a connection carry another epoch than the one current when it was dialled", d
			}
		}
		// end of stream: after a clean Close of a healthy connection (all emitters had returned, nothing parked) the ID the
		// receiver would assign next equals the ID the sender would issue next
		if ci == len(all)-1 && !closeRace && !closeForced && !c.faulted.Load() && !truncated && c.epoch == finalEpoch && counter != finalNextSeq {
			d["receiver_next_id"], d["sender_next_seq"] = counter, finalNextSeq
			return "end of stream: after a clean Close the receiver's counter differs from the sender's next sequence number (accepted events neither delivered nor reported as dropped)", d
		}
		if ci == len(all)-1 && !closeRace && !closeForced && !c.faulted.Load() && !truncated && c.epoch == finalEpoch {
			obs.cleanEnds++
		}
	}
	return "", nil
}

// v28Frames splits a byte stream into u32-length-prefixed frames; truncated reports an incomplete tail.
func v28Frames(b []byte) (frames [][]byte, truncated bool) {
	for len(b) > 0 {
		if len(b) < 4 {
			return frames, true
		}
		n := int(binary.LittleEndian.Uint32(b))
		if len(b) < 4+n {
			return frames, true
		}
		frames = append(frames, b[4:4+n])
		b = b[4+n:]
	}
	return frames, false
}

func sampleNodeInfoV28() NodeInfo {
	ni := sampleNodeInfo()
	return ni
}

// ---- follow-up vs. reconnect race ----------------------------------------------------------------------------------------------
// A follow-up whose payload takes milliseconds to copy is emitted while the connection is killed and re-established under
// it (reconnect delay 1 ms). Whatever the interleaving, the child must be refused or carry its parent's epoch.

type v28Sink struct {
	closed    chan struct{}
	peerClose chan struct{}
	once      sync.Once
	peerOnce  sync.Once
}

func (c *v28Sink) Write(b []byte) (int, error) {
	select {
	case <-c.closed:
		return 0, net.ErrClosed
	default:
		return len(b), nil
	}
}
func (c *v28Sink) Read(b []byte) (int, error) {
	select {
	case <-c.closed:
		return 0, net.ErrClosed
	case <-c.peerClose:
		return 0, io.EOF
	}
}
func (c *v28Sink) Close() error                     { c.once.Do(func() { close(c.closed) }); return nil }
func (c *v28Sink) LocalAddr() net.Addr              { return &net.TCPAddr{} }
func (c *v28Sink) RemoteAddr() net.Addr             { return &net.TCPAddr{} }
func (c *v28Sink) SetDeadline(time.Time) error      { return nil }
func (c *v28Sink) SetReadDeadline(time.Time) error  { return nil }
func (c *v28Sink) SetWriteDeadline(time.Time) error { return nil }

func v28FollowupRace(r vh.R, attempts int, overlapped, abandoned *int) (string, map[string]any) {
	var mu sync.Mutex
	var cur *v28Sink
	cli, err := newTCPClient(Config{Endpoint: "v28", NodeInfo: sampleNodeInfoV28(), BufferSize: 8, ReconnectMin: time.Millisecond, ReconnectMax: time.Millisecond,
		CloseTimeout: 3 * time.Second, TailDropInterval: time.Millisecond})
	if err != nil {
		return "client construction failed", nil
	}
	cli.dialer = func(ctx context.Context, addr string) (net.Conn, error) {
		c := &v28Sink{closed: make(chan struct{}), peerClose: make(chan struct{})}
		mu.Lock()
		cur = c
		mu.Unlock()
		return c, nil
	}
	cli.start()
	defer cli.Close()
	big := make([]byte, 24<<20)
	for a := 0; a < attempts; a++ {
		dl := time.Now().Add(10 * time.Second)
		for !cli.Enabled() && time.Now().Before(dl) {
			time.Sleep(100 * time.Microsecond)
		}
		parent := cli.Emit(5, []byte{1})
		if parent == InvalidID {
			continue
		}
		epochBefore, _ := cli.seq.snapshot()
		done := make(chan uint64, 1)
		lazy := a%4 == 3
		go func() {
			if lazy {
				done <- cli.EmitFollowupLazy(6, parent, func() []byte { return []byte{2} })
			} else {
				done <- cli.EmitFollowup(6, parent, big)
			}
		}()
		time.Sleep(time.Duration(r.IntN(1500)) * time.Microsecond)
		mu.Lock()
		c := cur
		mu.Unlock()
		c.peerOnce.Do(func() { close(c.peerClose) }) // the aggregator goes away; the client reconnects within ~1 ms
		var child uint64
		select {
		case child = <-done:
		case <-time.After(300 * time.Second):
			// a watchdog, not a verdict: on a saturated machine a 24 MiB copy under the race detector can take very long.
			// (Non-blocking is judged where it can be judged without a clock: the burst issued while Write is parked.)
			*abandoned++
			return "", nil
		}
		epochAfter, _ := cli.seq.snapshot()
		if epochAfter != epochBefore {
			*overlapped++
		}
		if child != InvalidID && eventIDEpoch(child) != eventIDEpoch(parent) {
			return "follow-up accepted with a parent from another connection (epoch differs)",
				map[string]any{"attempt": a, "parent_epoch": eventIDEpoch(parent), "child_epoch": eventIDEpoch(child), "lazy": lazy, "stratum": "reconnect under a slow follow-up"}
		}
	}
	return "", nil
}

func TestVerifC28(t *testing.T) {
	h := vh.Open(t, "C28")
	defer h.Done()
	log.SetOutput(io.Discard)
	n := h.N(400, 8000)
	for ci := 0; ci < n; ci++ {
		if !h.Mine("run", ci) {
			continue
		}
		r := h.Rng("run", ci)
		procs := []int{1, 2, 4, 16}[ci%4]
		old := runtime.GOMAXPROCS(procs)
		h.Case("run", ci, "", map[string]any{"gomaxprocs": procs})
		var obs v28Obs
		why, d := v28Scenario(r, &obs)
		runtime.GOMAXPROCS(old)
		if why != "" {
			if d == nil {
				d = map[string]any{}
			}
			d["gomaxprocs"] = procs
			h.Viol("run", ci, "", why, d)
			if strings.Contains(why, "did not finish within") || strings.Contains(why, "did not return within") {
				// an emitter is blocked for good: its goroutines (and the lock they hold) are still around, every further run of this
				// process would wait for its watchdog as well. One witness is enough; the other shards go on.
				break
			}
			continue
		}
		if ci%8 == 3 { // the follow-up / reconnect race (memory-hungry: 24 MiB payloads), in every 8th run, with GOMAXPROCS=16
			overl, aband := 0, 0
			if why, d := v28FollowupRace(r, 4, &overl, &aband); why != "" {
				h.Viol("run", ci, "", why, d)
				continue
			}
			h.Count("followups_emitted_while_the_connection_was_replaced", int64(overl))
			h.Count("followup_race_attempts_abandoned_by_the_watchdog", int64(aband))
		}
		h.Inc("runs")
		h.Count("connections", int64(obs.conns))
		h.Count("reconnects", int64(obs.reconnects))
		h.Count("drop_records", int64(obs.dropRecords))
		h.Count("events_covered_by_drop_records", int64(obs.droppedEvents))
		h.Count("events_delivered", int64(obs.delivered))
		h.Count("followups_delivered", int64(obs.followupsDelivered))
		h.Count("emits_returned_while_write_stalled", int64(obs.parkedEmits))
		h.Count("payloadless_events_delivered", int64(obs.emptyDelivered))
		h.Count("closes_that_gave_up_and_cut_the_connection_not_judged_at_end_of_stream", int64(obs.forcedCloses))
		h.Count("events_emitted_with_payloads_of_4_KiB_or_more", int64(obs.largeEmitted))
		h.Count("close_racing_with_emitters", int64(obs.closeRaces))
		h.Count("dial_failures", int64(obs.dialFailures))
		h.Count("emits_refused_invalid_id", int64(obs.invalid))
		h.Count("clean_ends_with_counter_equal_to_next_seq", int64(obs.cleanEnds))
		h.Distinct(obs.conns, obs.dropRecords, obs.delivered, obs.followupsDelivered, procs)
		if ci < 2 {
			h.Sample(map[string]any{"connections": obs.conns, "drop_records": obs.dropRecords, "delivered": obs.delivered, "gomaxprocs": procs})
		}
	}
}
