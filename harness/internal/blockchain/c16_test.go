package blockchain

import (
	"bytes"
	"sort"
	"testing"

	"github.com/New-JAMneration/JAM-Protocol/internal/types"
	"github.com/New-JAMneration/JAM-Protocol/internal/utilities/merklization"
	"github.com/New-JAMneration/JAM-Protocol/internal/zzverif/reftrie"
	"github.com/New-JAMneration/JAM-Protocol/internal/zzverif/vh"
)

// vKeyFamily draws keys that share long prefixes with each other (deep trie paths).
func vC16Key(r vh.R, fams [][31]byte) [31]byte {
	k := fams[r.IntN(len(fams))]
	switch r.IntN(5) {
	case 0:
		copy(k[:], r.Bytes(31))
	case 1:
		d := 247 - r.IntN(8)
		k[d/8] ^= 0x80 >> uint(d%8)
	default:
		share := r.IntN(248)
		rnd := r.Bytes(31)
		for b := share; b < 248; b++ {
			k[b/8] = k[b/8]&^(0x80>>uint(b%8)) | rnd[b/8]&(0x80>>uint(b%8))
		}
	}
	return k
}

func vC16Value(r vh.R) []byte {
	switch r.IntN(8) {
	case 0:
		return []byte{}
	case 1:
		return r.Bytes(1)
	case 2:
		return r.Bytes(31)
	case 3:
		return r.Bytes(32)
	case 4:
		return r.Bytes(33)
	case 5:
		return nil
	default:
		return r.Bytes(r.IntN(120))
	}
}

// vC16Change derives a different value from an old one, biased to the changes a stale cache entry would hide.
func vC16Change(r vh.R, old []byte) []byte {
	for {
		var nv []byte
		switch r.IntN(6) {
		case 0: // one bit flipped, same length
			if len(old) == 0 {
				continue
			}
			nv = append([]byte(nil), old...)
			nv[r.IntN(len(nv))] ^= 1 << uint(r.IntN(8))
		case 1: // across the embedded/hashed boundary
			if len(old) <= 32 {
				nv = append(append([]byte(nil), old...), r.Bytes(33-len(old)+r.IntN(4))...)
			} else {
				nv = append([]byte(nil), old[:r.IntN(33)]...)
			}
		case 2: // one byte appended / dropped
			if len(old) > 0 && r.Bool() {
				nv = append([]byte(nil), old[:len(old)-1]...)
			} else {
				nv = append(append([]byte(nil), old...), 0)
			}
		default:
			nv = vC16Value(r)
		}
		if !bytes.Equal(nv, old) {
			return nv
		}
	}
}

func TestVerifC16(t *testing.T) {
	h := vh.Open(t, "C16")
	defer h.Done()
	capacity := types.MaxKeyLevelCacheSize
	h.Note("cache_capacity", capacity)
	n := h.N(1600, 30000)
	for ci := 0; ci < n; ci++ {
		if !h.Mine("hist", ci) {
			continue
		}
		h.CaseLight("hist", ci)
		r := h.Rng("hist", ci)
		// Every 4th history starts from a fresh node; the others inherit the cache left by the previous histories
		// of this process (other keys, possibly near capacity), as a long-running node would.
		if ci%4 == 0 {
			ResetInstance()
		}
		cs := GetInstance()
		nf := 1 + r.IntN(3)
		fams := make([][31]byte, nf)
		for i := range fams {
			copy(fams[i][:], r.Bytes(31))
		}
		cur := map[[31]byte][]byte{}
		var removed [][31]byte // keys removed earlier: re-adding them with another value must not hit a stale entry
		var oldVals = map[[31]byte][]byte{}
		steps := 3 + r.IntN(40)
		bulk := ci%8 == 1 // a history that crosses the capacity (clear in the middle of a computation)
		var trace []string
		var snaps []map[[31]byte][]byte
		sig := []byte{}
		for step := 0; step < steps; step++ {
			op := r.IntN(13)
			if step == 0 {
				op = 0
			}
			switch {
			case op == 10 || op == 11: // swap: some keys leave, as many earlier-removed keys come back with the value they had (same
				// number of entries, every leaf still in the cache, another key set)
				keys := vC16Sorted(cur)
				var back [][31]byte
				for _, k := range removed {
					if _, in := cur[k]; !in && oldVals[k] != nil {
						dup := false
						for _, b := range back {
							dup = dup || b == k
						}
						if !dup {
							back = append(back, k)
						}
					}
				}
				j := min(len(keys), len(back), 1+r.IntN(3))
				for q := 0; q < j; q++ {
					i := r.IntN(len(keys))
					oldVals[keys[i]] = cur[keys[i]]
					removed = append(removed, keys[i])
					delete(cur, keys[i])
					keys = append(keys[:i], keys[i+1:]...)
				}
				for q := 0; q < j; q++ {
					cur[back[q]] = oldVals[back[q]]
				}
				if j > 0 {
					h.Inc("steps_swapping_keys_at_equal_count")
				}
				trace = append(trace, "swap")
			case op == 12: // back to the entry set of an earlier computation (a fork / rollback), possibly of equal size
				if len(snaps) > 0 {
					sn := snaps[r.IntN(len(snaps))]
					for k, v := range cur {
						if _, in := sn[k]; !in {
							oldVals[k] = v
							removed = append(removed, k)
						}
					}
					cur = map[[31]byte][]byte{}
					for k, v := range sn {
						cur[k] = v
					}
					h.Inc("steps_returning_to_an_earlier_entry_set")
				}
				trace = append(trace, "rollback")
			case op <= 2: // add
				k := 1 + r.IntN(12)
				if bulk && r.IntN(4) == 0 {
					k = capacity/2 + r.IntN(capacity)
				}
				for ; k > 0; k-- {
					key := vC16Key(r, fams)
					if len(removed) > 0 && r.IntN(3) == 0 {
						key = removed[r.IntN(len(removed))]
					}
					if _, ok := cur[key]; ok {
						continue
					}
					v := vC16Value(r)
					if ov, was := oldVals[key]; was && r.Bool() {
						v = vC16Change(r, ov)
					}
					cur[key] = v
				}
				trace = append(trace, "add")
			case op <= 4: // change values
				keys := vC16Sorted(cur)
				for k := 1 + r.IntN(6); k > 0 && len(keys) > 0; k-- {
					key := keys[r.IntN(len(keys))]
					oldVals[key] = cur[key]
					cur[key] = vC16Change(r, cur[key])
				}
				h.Inc("steps_changing_values")
				trace = append(trace, "change")
			case op == 5: // change and change back (A -> B -> A across computations)
				keys := vC16Sorted(cur)
				if len(keys) > 0 {
					key := keys[r.IntN(len(keys))]
					if ov, ok := oldVals[key]; ok {
						oldVals[key], cur[key] = cur[key], ov
						h.Inc("steps_restoring_an_earlier_value")
					}
				}
				trace = append(trace, "restore")
			case op <= 7: // remove
				keys := vC16Sorted(cur)
				for k := 1 + r.IntN(5); k > 0 && len(keys) > 0; k-- {
					i := r.IntN(len(keys))
					oldVals[keys[i]] = cur[keys[i]]
					removed = append(removed, keys[i])
					delete(cur, keys[i])
					keys = append(keys[:i], keys[i+1:]...)
				}
				trace = append(trace, "remove")
			case op == 8:
				cs.ClearKeyLevelCache()
				h.Inc("explicit_clears")
				trace = append(trace, "clear")
			default: // recompute the same set (all hits)
				trace = append(trace, "same")
			}
			// ---- the three roots ------------------------------------------------------------
			keys := vC16Sorted(cur)
			kvs := make([]reftrie.KV, len(keys))
			in := make(types.StateKeyVals, len(keys))
			for i, k := range keys {
				kvs[i] = reftrie.KV{Key: k, Value: cur[k]}
				in[i] = types.StateKeyVal{Key: types.StateKey(k), Value: cur[k]}
			}
			if r.IntN(3) == 0 {
				in = vh.Shuffled(r, in)
			}
			before := make(types.StateKeyVals, len(in))
			copy(before, in)
			lenBefore := cs.keyLevelCache.Len()
			var cached types.StateRoot
			if pn, msg, st := vh.Guard(func() { cached = cs.ComputeStateRootWithCache(in) }); pn {
				h.Viol("hist", ci, "", "cached-root-panic", map[string]any{"step": step, "entries": len(in), "panic": msg, "stack": st})
				break
			}
			lenAfter := cs.keyLevelCache.Len()
			scratch := merklization.MerklizationSerializedState(in)
			model := reftrie.Root(kvs)
			d := map[string]any{"step": step, "ops": trace[max(0, len(trace)-8):], "entries": len(in), "cache_len_before": lenBefore, "cache_len_after": lenAfter,
				"cached": vh.Hex(cached[:]), "scratch": vh.Hex(scratch[:]), "model": vh.Hex(model[:])}
			if cached != scratch {
				h.Viol("hist", ci, "", "cached-root-differs-from-uncached-root", d)
				break
			}
			if !bytes.Equal(scratch[:], model[:]) {
				h.Viol("hist", ci, "", "uncached-root-differs-from-trie-model", d)
				break
			}
			for i := range in {
				if in[i].Key != before[i].Key || !bytes.Equal(in[i].Value, before[i].Value) {
					h.Viol("hist", ci, "", "input-reordered-or-modified-by-cached-root", d)
					break
				}
			}
			if lenAfter > capacity { // not part of the property (only the roots are): observed, not judged
				h.Inc("cache_above_capacity_observed")
			}
			h.Inc("roots_compared")
			if lenAfter < lenBefore { // the cache only shrinks when it is cleared: a clear at capacity happened inside this computation
				h.Inc("computations_with_eviction_at_capacity")
			}
			if lenAfter == lenBefore && len(in) > 0 && trace[len(trace)-1] == "same" {
				h.Inc("computations_all_hits")
			}
			if lenBefore > 0 && len(in) > 0 {
				h.Inc("computations_on_a_warm_cache")
			}
			sig = append(sig, model[:4]...)
			if len(snaps) < 6 && r.IntN(3) == 0 {
				sn := map[[31]byte][]byte{}
				for k, v := range cur {
					sn[k] = v
				}
				snaps = append(snaps, sn)
			}
		}
		h.Distinct("hist", sig)
		if ci < 2 {
			h.Sample(map[string]any{"ops": trace, "final_entries": len(cur), "cache_len": cs.keyLevelCache.Len()})
		}
	}

	// ---- the cache object itself: get-or-compute over random (key, value) histories -------------
	m := h.N(400, 8000)
	for ci := 0; ci < m; ci++ {
		if !h.Mine("kcache", ci) {
			continue
		}
		h.CaseLight("kcache", ci)
		r := h.Rng("kcache", ci)
		c := NewKeyLevelCache()
		keys := make([]types.StateKey, 1+r.IntN(6))
		for i := range keys {
			copy(keys[i][:], r.Bytes(31))
		}
		last := map[types.StateKey][]byte{}
		computed := 0
		for step := 0; step < 60; step++ {
			k := keys[r.IntN(len(keys))]
			var v []byte
			if ov, ok := last[k]; ok && r.IntN(3) > 0 {
				if r.Bool() {
					v = ov
				} else {
					v = vC16Change(r, ov)
				}
			} else {
				v = vC16Value(r)
			}
			if r.IntN(25) == 0 {
				c.Clear()
			}
			got := c.GetOrComputeLeafHash(k, v, func(k types.StateKey, v []byte) types.OpaqueHash {
				computed++
				return merklization.EncodeLeafNodeHash(k, v)
			})
			if want := merklization.EncodeLeafNodeHash(k, v); got != want {
				h.Viol("kcache", ci, "", "cache-returned-a-leaf-hash-of-another-value", map[string]any{"step": step, "key": vh.Hex(k[:]), "value": vh.Hex(v), "previous_value": vh.Hex(last[k])})
				break
			}
			last[k] = v
			h.Inc("kcache_lookups")
		}
		h.Distinct("kcache", ci, computed)
	}
}

func vC16Sorted(m map[[31]byte][]byte) [][31]byte {
	ks := make([][31]byte, 0, len(m))
	for k := range m {
		ks = append(ks, k)
	}
	sort.Slice(ks, func(i, j int) bool { return bytes.Compare(ks[i][:], ks[j][:]) < 0 })
	return ks
}
