package fuzz

// Verif shims (overlay only): expose the fuzz-protocol compact codec to /verif's C12 monitor.
func VerifCompactEncode(x uint64) []byte        { return compactEncode(x) }
func VerifCompactDecode(b []byte) (uint64, int) { return compactDecode(b) }
