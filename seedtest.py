#!/usr/bin/env python3
"""seedtest.py <worktree-name> <seed-id> <check-id>[,<check-id>...] [--tier quick] [--seed N] [--skip-confirm]
Confirms a seeded change produced by a sub-agent in /tmp/wt/<worktree-name> (demo passes without the change, fails with it,
baseline suite passes with it), stores it under /verif/seeded/<seed-id>/ and runs the named checks against the changed tree
(through VERIF_REPO, i.e. the scratch worktree — /repo itself is never touched). Results are appended to seeded/<seed-id>/meta.json."""
import sys, os, json, subprocess, shutil, glob, time
name, sid, checks = sys.argv[1], sys.argv[2], sys.argv[3].split(",")
tier, seed, skip = "quick", "1", False
a = sys.argv[4:]
for i, x in enumerate(a):
    if x == "--tier": tier = a[i + 1]
    if x == "--seed": seed = a[i + 1]
    if x == "--skip-confirm": skip = True
wt = f"/tmp/wt/{name}"
V = "/verif"
env = dict(os.environ); env.pop("GOSUMDB", None); env.pop("GOTOOLCHAIN", None); env.update({"GOFLAGS": "-mod=mod", "GOPROXY": "off"})
def sh(cmd, cwd=wt, timeout=1800):
    r = subprocess.run(["bash", "-c", cmd], cwd=cwd, env=env, stdout=subprocess.PIPE, stderr=subprocess.STDOUT, text=True, timeout=timeout)
    return r.returncode, r.stdout
meta = json.load(open(f"{wt}/meta.json"))
out = f"{V}/seeded/{sid}"
os.makedirs(out, exist_ok=True)
rec = {"confirmed_by_me": {}}
patch = f"{wt}/seed.patch"
if not skip:
    # state: agent left the change applied
    rc, o = sh("git apply -R --check seed.patch && git apply -R seed.patch")
    if rc != 0:
        rc2, o2 = sh("git apply --check seed.patch")   # maybe not applied
        if rc2 != 0:
            print("cannot establish patch state:\n", o, o2); sys.exit(3)
    demo = meta.get("demo_command", "")
    demo = demo.replace("unset GOSUMDB GOTOOLCHAIN;", "").strip()
    rc_wo, o_wo = sh(f"cd {wt} && {demo}")
    sh("git apply seed.patch")
    rc_w, o_w = sh(f"cd {wt} && {demo}")
    rc_b, o_b = sh(f"/tmp/wt/tools/basecheck.sh {wt}")
    rc_build, o_build = sh("go build ./... 2>&1 | grep -v 'reed_solomon\\|erasure\\|^#' | head -5")
    rec["confirmed_by_me"] = {"demo_command": demo, "demo_without_change_rc": rc_wo, "demo_with_change_rc": rc_w,
                              "demo_with_change_tail": o_w[-600:], "baseline_with_change": o_b.strip()[-200:], "baseline_rc": rc_b}
    print(f"demo without change rc={rc_wo}  with change rc={rc_w}  baseline rc={rc_b}: {o_b.strip()[-120:]}")
    if rc_wo != 0 or rc_w == 0 or rc_b != 0:
        print("NOT CONFIRMED"); print(o_wo[-1500:]); print(o_w[-800:])
        json.dump({**meta, **rec, "status": "not confirmed"}, open(f"{out}/meta.json", "w"), indent=1)
        sys.exit(4)
    shutil.copy(patch, f"{out}/patch.diff")
    if os.path.isdir(f"{wt}/demo"):
        shutil.rmtree(f"{out}/demo", ignore_errors=True); shutil.copytree(f"{wt}/demo", f"{out}/demo")
# remove the demo file from its package dir so that it cannot disturb the harness build
dp = meta.get("demo_placement", "")
for cand in [dp] + [p for p in glob.glob(f"{wt}/**/seed_*_test.go", recursive=True) if "/demo/" not in p]:
    if cand and not cand.startswith("/"): cand = os.path.join(wt, cand)
    if cand and os.path.isfile(cand) and "/demo/" not in cand: os.remove(cand)
results = {}
for cid in checks:
    t0 = time.time()
    e2 = dict(env); e2["VERIF_REPO"] = wt
    r = subprocess.run([f"{V}/vcheck", "run", cid, "--tier", tier, "--seed", seed], cwd=V, env=e2, stdout=subprocess.PIPE, stderr=subprocess.STDOUT, text=True)
    lines = [l for l in r.stdout.splitlines() if l.startswith(("VIOLATION", "INCONCLUSIVE", "[" + cid))]
    nv = sum(1 for l in lines if l.startswith("VIOLATION"))
    results[cid] = {"tier": tier, "seed": int(seed), "exit": r.returncode, "violation_lines": nv, "first": [l[:300] for l in lines[:3]], "wall_s": round(time.time() - t0)}
    print(f"{cid}: exit={r.returncode} violations={nv}  " + (lines[0][:200] if lines else ""))
old = {}
if os.path.exists(f"{out}/meta.json"):
    old = json.load(open(f"{out}/meta.json"))
runs = old.get("checks_run", []) if isinstance(old.get("checks_run"), list) else []
runs.append(results)
m2 = {**old, **meta, **({} if skip else rec), "worktree_commit": subprocess.run(["git", "-C", wt, "rev-parse", "HEAD"], stdout=subprocess.PIPE, text=True).stdout.strip(),
      "checks_run": runs, "status": "confirmed"}
json.dump(m2, open(f"{out}/meta.json", "w"), indent=1)
